// hx-events drives the REAL eth/eventhandler.EventHandler (properties C11 and C12) over real
// nodestorage on an in-memory badger database, the real eventparser fed with ABI-packed logs, the
// real RSA decrypter / BLS keys, the real ekm key manager and QBFT decided store, and a recording
// task executor.
//
//	hx-events gen -seed S -n N [-dupid=false] C11: random histories of all eight event kinds (valid and
//	                                      malformed), random batching, restarts, metadata updates
//	hx-events crash -seed S -n N          C12: N base histories; for every block and every write call k
//	                                      of its processing a case that kills / fails the node there,
//	                                      restarts it on the surviving database and resumes
//	hx-events scripted                    fixed boundary histories (uint16 nonce wrap, remove + re-add
//	                                      in one block, reactivation before removal, ...)
//	hx-events finding-dupid               the duplicate-operator-id-in-one-block history (F-C11)
//	hx-events replay FILE                 re-run the operation lines of a corpus / replay file
//
// Output: CASE / op / OBS / MON lines (see harness/hx).  Op lines (the model runner reads the same):
//
//	B <num>            begin a block          E <event ...>    one event of the block
//	P                  process the block      K <k> <mode>     process it, die after k write calls, restart
//	M <v> <idx>        UpdateValidatorMetadata R                restart
//	D <v>              store a decided instance for validator v
//	S <owner> <n>      BumpNonce(owner) n times directly on the storage
package main

import (
	"bufio"
	"flag"
	"fmt"
	"os"
	"runtime"
	"runtime/pprof"
	"sort"
	"strconv"
	"strings"

	"github.com/attestantio/go-eth2-client/spec/phase0"

	beaconprotocol "github.com/bloxapp/ssv/protocol/v2/blockchain/beacon"

	"verifharness/hx"
)

type item struct {
	kind  string // block | crash | meta | restart | decided | seed
	num   uint64
	evs   []*absEvent
	k     int
	mode  string
	v     uint64
	idx   uint64
	owner uint64
	count uint64
}

// ---- executing a history ---------------------------------------------------------------------------

type runner struct {
	last   []string // tasks of the last processed block
	light  bool     // observe only the registry getters (scratch / monitor runs)
	cur    *state   // the state after the last item (nil: unknown)
	status string   // result of the last block item
	out    *hx.Out  // nil: silent run
	n      *node
	writes []int    // write calls per processed block (uninterrupted ones)
	tasks  []string // all tasks in order
	viol   []string
}

func (r *runner) op(kind, format string, a ...any) {
	if r.out != nil {
		r.out.Op(kind, format, a...)
	}
}

func (r *runner) obs(lines ...string) {
	if r.out != nil {
		for _, l := range lines {
			r.out.Obs("%s", l)
		}
	}
}

func (r *runner) violf(format string, a ...any) {
	msg := fmt.Sprintf(format, a...)
	r.viol = append(r.viol, msg)
	if r.out != nil {
		r.out.ViolF("%s", msg)
	}
}

func (r *runner) before() *state {
	if r.cur == nil {
		r.cur = r.n.observeLevel(!r.light)
	}
	return r.cur
}

func (r *runner) state() *state {
	st := r.n.observeLevel(!r.light)
	r.cur = st
	r.obs(st.lines()...)
	if !st.memdb {
		r.violf("C11 in-memory view differs from the database: %s", st.memdbWhy)
	}
	return st
}

func (r *runner) printBlock(it *item) {
	r.op("B", "%d", it.num)
	for _, e := range it.evs {
		r.op("E", "%s", e.line())
		if r.out != nil {
			r.out.Count("ev_" + e.kind)
		}
	}
}

// exec runs one item; returns the state after it (nil for items without observation).
func (r *runner) exec(it *item) *state {
	switch it.kind {
	case "block":
		before := r.before()
		r.printBlock(it)
		r.op("P", "")
		res := r.n.processBlock(it.num, it.evs, -1, "")
		r.status = res.status
		r.last = res.tasks
		switch res.status {
		case "ok":
			r.obs(fmt.Sprintf("res ok %d", res.writes))
			r.obs(res.tasks...)
			r.writes = append(r.writes, res.writes)
			r.tasks = append(r.tasks, res.tasks...)
		case "inferior":
			r.obs("res inferior")
			r.writes = append(r.writes, 0)
		default:
			r.obs("res " + res.status)
			r.violf("block %d: unexpected result %s %s", it.num, res.status, res.errText)
		}
		st := r.state()
		lastBefore := parseU(strings.TrimPrefix(before.last, "last "))
		if it.num <= lastBefore {
			// C12: a block not newer than the last processed one is refused and changes nothing
			if res.status != "inferior" {
				r.violf("C12 block %d is not newer than last processed %d but was not refused (%s)", it.num, lastBefore, res.status)
			}
			if before.registryKey() != st.registryKey() || len(res.tasks) > 0 {
				r.violf("C12 refused block %d changed the state", it.num)
			}
		} else if res.status == "inferior" {
			r.violf("block %d is newer than last processed %d but was refused", it.num, lastBefore)
		}
		return st
	case "crash":
		r.printBlock(it)
		r.op("K", "%d %s", it.k, it.mode)
		res := r.n.processBlock(it.num, it.evs, it.k, it.mode)
		done := res.status == "ok"
		if it.mode == "fail" && !done && res.status != "error" {
			r.violf("C12 injected failure at write %d of block %d: result %s", it.k, it.num, res.status)
		}
		if it.mode == "kill" && !done && res.status != "crash" {
			r.violf("C12 kill at write %d of block %d: result %s %s", it.k, it.num, res.status, res.errText)
		}
		d := 0
		if done {
			d = 1
		}
		r.obs(fmt.Sprintf("crash %d", d))
		r.n.start() // the process is gone: every in-memory object is rebuilt over the surviving database
		return r.state()
	case "meta":
		r.op("M", "%d %d", it.v, it.idx)
		md := &beaconprotocol.ValidatorMetadata{Index: phase0.ValidatorIndex(it.idx)}
		if err := r.n.storage.Shares().UpdateValidatorMetadata(fmt.Sprintf("%x", valPub(it.v)), md); err != nil {
			r.violf("UpdateValidatorMetadata: %v", err)
		}
		return r.state()
	case "restart":
		r.op("R", "")
		before := r.before()
		r.n.start()
		st := r.state()
		if before.registryKey() != st.registryKey() {
			r.violf("C11 restart does not reproduce the state: before %q after %q", before.registryKey(), st.registryKey())
		}
		return st
	case "decided":
		r.op("D", "%d", it.v)
		r.n.saveDecided(it.v)
		r.cur = nil
	case "seed":
		r.op("S", "%d %d", it.owner, it.count)
		r.cur = nil
		for i := uint64(0); i < it.count; i++ {
			if err := r.n.storage.BumpNonce(nil, addr(it.owner)); err != nil {
				panic(err)
			}
		}
	}
	return nil
}

// resumeFrom mimics setupEventHandling: blocks up to the recorded marker are not fetched again.
func (r *runner) lastProcessed() uint64 {
	return parseU(strings.TrimPrefix(r.before().last, "last "))
}

// ---- monitors that need a second run ---------------------------------------------------------------

// rebatch turns every block into one block per event (numbers chosen so that the last one keeps the
// original number); everything else stays where it is.
func rebatch(items []*item) []*item {
	var out []*item
	prev := uint64(0)
	for _, it := range items {
		if it.kind != "block" {
			if it.kind != "restart" {
				out = append(out, it)
			}
			continue
		}
		if it.num <= prev { // a stale block: keep as is (it is refused either way)
			out = append(out, it)
			continue
		}
		m := len(it.evs)
		if m <= 1 || uint64(m) > it.num-prev {
			out = append(out, it)
		} else {
			for j, e := range it.evs {
				num := it.num - uint64(m-1-j)
				out = append(out, &item{kind: "block", num: num, evs: []*absEvent{e}})
			}
		}
		prev = it.num
	}
	return out
}

type shareInfo struct {
	owner uint64
	liq   string
}

func parseShares(st *state) map[uint64]shareInfo {
	m := map[uint64]shareInfo{}
	for _, l := range st.shares {
		w := strings.Fields(l)
		m[parseU(w[1])] = shareInfo{owner: parseU(w[2]), liq: w[5]}
	}
	return m
}

func parseNonces(st *state) map[uint64]int64 {
	m := map[uint64]int64{}
	for _, f := range strings.Fields(st.rcp)[1:] {
		p := strings.Split(f, ":")
		if p[2] == "-" {
			m[parseU(p[0])] = -1
		} else {
			m[parseU(p[0])] = int64(parseU(p[2]))
		}
	}
	return m
}

func parseOps(st *state) map[uint64]bool {
	m := map[uint64]bool{}
	for _, f := range strings.Fields(st.ops)[1:] {
		m[parseU(strings.Split(f, ":")[0])] = true
	}
	return m
}

func validSize(n int) bool { return n == 4 || n == 7 || n == 10 || n == 13 }

// checkRules is the direct statement of the registration rules on one event applied alone:
// before / after are the observed states around a single-event block.
func checkRules(e *absEvent, tasks []string, before, after *state, viol func(string, ...any)) {
	sb, sa := parseShares(before), parseShares(after)
	// tasks: a validator is started / exited only on behalf of its owner
	for _, t := range tasks {
		w := strings.Fields(t)
		if len(w) >= 3 && (w[1] == "start" || w[1] == "exit" || w[1] == "stop") {
			v := parseU(w[2])
			if s, had := sb[v]; had && s.owner != e.owner {
				viol("C11 task %q for validator %d of owner %d issued on an event of owner %d: %s", t, v, s.owner, e.owner, e.line())
			}
		}
	}
	nb, na := parseNonces(before), parseNonces(after)
	self := parseU(strings.TrimPrefix(before.self, "self "))
	// nonce: every ValidatorAdded counts exactly once (mod 2^16), nothing else moves a nonce
	owners := map[uint64]bool{}
	for o := range nb {
		owners[o] = true
	}
	for o := range na {
		owners[o] = true
	}
	for o := range owners {
		b, okb := nb[o]
		if !okb {
			b = -1
		}
		a, oka := na[o]
		if !oka {
			a = -1
		}
		want := b
		if e.kind == "VA" && e.owner == o {
			want = (b + 1) % 65536
		}
		if a != want {
			viol("C11 nonce of owner %d moved %d -> %d on %s (want %d)", o, b, a, e.line(), want)
		}
	}
	// additions
	for v, s := range sa {
		if _, had := sb[v]; had {
			continue
		}
		ok := e.kind == "VA" && e.v == v && s.owner == e.owner
		if ok {
			exp := nb[e.owner] + 1
			if _, has := nb[e.owner]; !has {
				exp = 0
			}
			exp %= 65536
			ok = e.sig != nil && e.sig[0] == v && e.sig[1] == e.owner && int64(e.sig[2]) == exp
			ops := parseOps(before)
			seen := map[uint64]bool{}
			ok = ok && validSize(len(e.ops)) && e.length == expectedLen(len(e.ops))
			for i, id := range e.ops {
				if seen[id] || !ops[id] {
					ok = false
				}
				seen[id] = true
				if self != 0 && id == self && (i >= len(e.shares) || !e.shares[i].ok) {
					ok = false
				}
			}
		}
		if !ok {
			viol("C11 validator %d was added by an event that breaks a registration rule: %s", v, e.line())
		}
	}
	// removals: only the owner
	for v, s := range sb {
		if _, still := sa[v]; still {
			continue
		}
		if !(e.kind == "VR" && e.v == v && e.owner == s.owner) {
			viol("C11 validator %d (owner %d) disappeared on %s", v, s.owner, e.line())
		}
	}
	// liquidation flags only move on cluster events of the share's owner
	for v, s := range sa {
		if b, had := sb[v]; had && b.liq != s.liq {
			if !((e.kind == "CL" || e.kind == "CR") && e.owner == s.owner) {
				viol("C11 liquidation flag of validator %d changed on %s", v, e.line())
			}
		}
	}
}

// monitorC11 re-runs the same events one per block on a fresh node: same final registry, same
// tasks; the registration rules hold on every single event.
func monitorC11(items []*item, final *state, tasks []string, viol func(string, ...any)) {
	n := newNode()
	defer n.close()
	r := &runner{n: n, light: true}
	prev := r.before()
	for _, it := range rebatch(items) {
		st := r.exec(it)
		if st == nil {
			prev = r.before()
			continue
		}
		if it.kind == "block" && len(it.evs) == 1 && r.status == "ok" {
			checkRules(it.evs[0], r.last, prev, st, viol)
		}
		prev = st
	}
	for _, v := range r.viol {
		viol("in the one-event-per-block run: %s", v)
	}
	prev = n.observe()
	if prev.registryKey() != final.registryKey() {
		viol("C11 batching changes the result: as batched %q, one event per block %q", final.registryKey(), prev.registryKey())
	}
	if strings.Join(r.tasks, ";") != strings.Join(tasks, ";") {
		viol("C11 batching changes the tasks: as batched %v, one event per block %v", tasks, r.tasks)
	}
}

// ---- a case -------------------------------------------------------------------------------------------

func note(out *hx.Out, st *state) {
	for _, x := range st.residue {
		out.Note("residue %s", x)
		out.Count("residue_" + strings.Split(x, ":")[0])
	}
}

// runPlain executes a history (C11 shape), prints it, runs the C11 monitors.
func runPlain(out *hx.Out, title string, items []*item) {
	out.Case("%s", title)
	n := newNode()
	defer n.close()
	out.Op("NEW", "")
	r := &runner{out: out, n: n}
	var final *state
	for _, it := range items {
		if st := r.exec(it); st != nil {
			final = st
		}
	}
	if final == nil {
		final = r.before()
	}
	monitorC11(items, final, r.tasks, func(f string, a ...any) { out.ViolF(f, a...) })
	out.End()
}

// runCrash executes a history containing one crash item; after the crash the remaining blocks are
// resumed from the recorded marker + 1.  baseKey is the final state of the uninterrupted run.
func runCrash(out *hx.Out, title string, items []*item, base *state) {
	out.Case("%s", title)
	n := newNode()
	defer n.close()
	out.Op("NEW", "")
	r := &runner{out: out, n: n}
	crashed := false
	var final *state
	for _, it := range items {
		if crashed && it.kind == "block" && it.num <= r.lastProcessed() {
			out.Note("resume: block %d is not fetched again (last processed %d)", it.num, r.lastProcessed())
			continue
		}
		if st := r.exec(it); st != nil {
			final = st
		}
		if it.kind == "crash" {
			crashed = true
		}
	}
	if final == nil {
		final = r.before()
	}
	if base != nil {
		if final.registryKey() != base.registryKey() {
			out.ViolF("C12 state after crash + resume differs from the uninterrupted run: %q vs %q", final.registryKey(), base.registryKey())
		}
		for _, k := range final.use {
			if !containsU(final.att, k) || !containsU(final.prop, k) {
				out.ViolF("C12 usable key share %d has no slashing protection record after crash + resume", k)
			}
		}
		for _, k := range base.att {
			if !containsU(final.att, k) {
				out.ViolF("C12 slashing record of %d missing after crash + resume", k)
			}
		}
		note(out, final)
	}
	out.End()
}

// silentFinal runs a history without printing and returns its final state and write counts.
func silentFinal(items []*item) (*state, []int, []string) {
	n := newNode()
	defer n.close()
	r := &runner{n: n}
	for _, it := range items {
		r.exec(it)
	}
	return r.before(), r.writes, r.viol
}

// ---- replay -------------------------------------------------------------------------------------------

func parseItems(lines []string) []*item {
	var items []*item
	var cur *item
	for _, l := range lines {
		w := strings.Fields(l)
		if len(w) == 0 {
			continue
		}
		switch w[0] {
		case "B":
			cur = &item{kind: "block", num: parseU(w[1])}
		case "E":
			if cur != nil {
				cur.evs = append(cur.evs, parseEvent(w[1:]))
			}
		case "P":
			if cur != nil {
				items = append(items, cur)
				cur = nil
			}
		case "K":
			if cur != nil {
				cur.kind, cur.k, cur.mode = "crash", int(parseU(w[1])), "kill"
				if len(w) > 2 {
					cur.mode = w[2]
				}
				items = append(items, cur)
				cur = nil
			}
		case "M":
			items = append(items, &item{kind: "meta", v: parseU(w[1]), idx: parseU(w[2])})
		case "R":
			items = append(items, &item{kind: "restart"})
		case "D":
			items = append(items, &item{kind: "decided", v: parseU(w[1])})
		case "S":
			items = append(items, &item{kind: "seed", owner: parseU(w[1]), count: parseU(w[2])})
		}
	}
	return items
}

func replay(out *hx.Out, path string) {
	f, err := os.Open(path)
	if err != nil {
		fmt.Fprintln(os.Stderr, err)
		os.Exit(2)
	}
	defer f.Close()
	sc := bufio.NewScanner(f)
	sc.Buffer(make([]byte, 1<<20), 1<<26)
	title := ""
	var lines []string
	flush := func() {
		if title == "" {
			return
		}
		multiStores = strings.Contains(title, "stores ") // a case of the stores mode: one decided store per role
		items := parseItems(lines)
		hasCrash := false
		var plain []*item
		for _, it := range items {
			if it.kind == "crash" {
				hasCrash = true
			} else {
				plain = append(plain, it)
			}
		}
		if hasCrash {
			// the uninterrupted run of the same history: the blocks in order, each once
			seen := map[uint64]bool{}
			var base []*item
			for _, it := range items {
				if it.kind == "block" || it.kind == "crash" {
					if seen[it.num] {
						continue
					}
					seen[it.num] = true
					base = append(base, &item{kind: "block", num: it.num, evs: it.evs})
				} else {
					base = append(base, it)
				}
			}
			st, _, _ := silentFinal(base)
			runCrash(out, "replay "+title, dedupAfterCrash(items), st)
		} else {
			runPlain(out, "replay "+title, plain)
		}
		title, lines = "", nil
	}
	for sc.Scan() {
		l := sc.Text()
		switch {
		case strings.HasPrefix(l, "CASE "):
			flush()
			title = strings.TrimPrefix(l, "CASE ")
			if i := strings.Index(title, " "); i >= 0 {
				title = title[i+1:]
			}
		case l == "END":
			flush()
		case strings.HasPrefix(l, "OBS "), strings.HasPrefix(l, "MON "), strings.HasPrefix(l, "#"):
		default:
			lines = append(lines, l)
		}
	}
	flush()
}

// dedupAfterCrash: a replay file lists after the crash exactly the blocks that were resumed; the
// resume logic of runCrash decides again from the real marker, so nothing to do but keep order.
func dedupAfterCrash(items []*item) []*item { return items }

// ---- main ---------------------------------------------------------------------------------------------

func main() {
	if len(os.Args) < 2 {
		fmt.Fprintln(os.Stderr, "usage: hx-events gen|crash|scripted|finding-dupid|replay ...")
		os.Exit(2)
	}
	mode := os.Args[1]
	fs := flag.NewFlagSet(mode, flag.ExitOnError)
	seed := fs.Uint64("seed", 1, "seed")
	num := fs.Int("n", 100, "number of cases / base histories")
	dupid := fs.Bool("dupid", true, "allow two OperatorAdded with the same id in one block (finding F10, fixed by cf04b819e)")
	maxk := fs.Int("maxcases", 0, "crash: stop after this many cases (0 = no limit)")
	_ = fs.Parse(os.Args[2:])
	if pf := os.Getenv("HX_PROF"); pf != "" {
		f, _ := os.Create(pf)
		_ = pprof.StartCPUProfile(f)
		defer pprof.StopCPUProfile()
	}
	if pf := os.Getenv("HX_MEMPROF"); pf != "" {
		runtime.MemProfileRate = 4096
		defer func() {
			f, _ := os.Create(pf)
			_ = pprof.Lookup("allocs").WriteTo(f, 0)
			f.Close()
		}()
	}
	initPool()
	out := hx.NewOut()
	defer out.Close()
	switch mode {
	case "gen":
		for c := 0; c < *num; c++ {
			r := hx.NewRand(*seed, "events-gen", uint64(c))
			items := generate(r, genCfg{blocks: 3 + r.Intn(6), maxEvents: 5, dupid: *dupid, stale: true})
			runPlain(out, fmt.Sprintf("gen seed=%d case=%d", *seed, c), items)
		}
	case "crash":
		total := 0
		for c := 0; c < *num; c++ {
			r := hx.NewRand(*seed, "events-crash", uint64(c))
			items := generate(r, genCfg{blocks: 2 + r.Intn(3), maxEvents: 4, crashy: true})
			base, writes, viol := silentFinal(items)
			if len(viol) > 0 {
				out.Case("crash-base seed=%d base=%d", *seed, c)
				out.ViolF("uninterrupted run: %s", viol[0])
				out.End()
				continue
			}
			bi := 0
			for i, it := range items {
				if it.kind != "block" {
					continue
				}
				w := writes[bi]
				bi++
				for k := 0; k <= w; k++ {
					mode := "kill"
					if r.Chance(1, 3) && k < w {
						mode = "fail"
					}
					ci := append(append([]*item{}, items[:i]...), &item{kind: "crash", num: it.num, evs: it.evs, k: k, mode: mode})
					ci = append(ci, items[i:]...)
					runCrash(out, fmt.Sprintf("crash seed=%d base=%d block=%d k=%d/%d %s", *seed, c, it.num, k, w, mode), ci, base)
					total++
					if *maxk > 0 && total >= *maxk {
						return
					}
				}
			}
		}
	case "stores":
		// One decided store per role, as the node has (monitor only: the model counts the storage calls of one store).
		// An own validator with a decided instance is removed; the k-th storage call of that block fails, for every k;
		// then the block comes again.  Crash + resume must end where the uninterrupted run ends - in particular no
		// decided history of the removed validator may survive a removal that was committed.
		multiStores = true
		tmpl := func(k int) []string {
			l := []string{"NEW", "B 100", "E OA 1 1 1", "E OA 2 1 3", "E OA 3 1 4", "E OA 4 1 5", "P",
				"B 200", "E VA 1 1 1312 1 1 0 4 1 2 3 4 4 17 1 18 0 19 0 20 0 k=ok,na,na,na sg=",
				"E VA 1 2 1312 2 1 1 4 1 2 3 4 4 33 1 34 0 35 0 36 0 k=ok,na,na,na sg=", "P", "D 1", "D 2",
				"B 300", "E VR 1 1 4 1 2 3 4"}
			if k >= 0 {
				l = append(l, fmt.Sprintf("K %d fail", k), "B 300", "E VR 1 1 4 1 2 3 4")
			}
			return append(l, "P", "B 400", "E VR 1 2 4 1 2 3 4", "P", "END")
		}
		base, writes, viol := silentFinal(parseItems(tmpl(-1)))
		if len(viol) > 0 {
			out.Case("stores base")
			out.ViolF("uninterrupted run: %s", viol[0])
			out.End()
			return
		}
		w := 0
		if len(writes) >= 3 {
			w = writes[2]
		}
		for rep := 0; rep < 3; rep++ { // the stores are visited in map order: repeat
			for k := 0; k < w; k++ {
				runCrash(out, fmt.Sprintf("stores rep=%d block=300 k=%d/%d fail", rep, k, w), parseItems(tmpl(k)), base)
			}
		}
	case "scripted":
		scripted(out)
	case "finding-dupid":
		findingDupID(out)
	case "replay":
		if fs.NArg() < 1 && len(os.Args) < 3 {
			fmt.Fprintln(os.Stderr, "replay FILE")
			os.Exit(2)
		}
		path := os.Args[2]
		replay(out, path)
	default:
		fmt.Fprintln(os.Stderr, "unknown mode", mode)
		os.Exit(2)
	}
}

var _ = sort.Strings
var _ = strconv.Itoa
