package main

// History generators.  Generation is adaptive: each block is generated while looking at the state
// of a scratch node that has processed the history so far, so that most events are meaningful
// (existing validators, the expected nonce, the node's own operator id); the resulting item list is
// then fixed and re-run by the callers.

import (
	"fmt"
	"strings"

	"verifharness/hx"
)

type genCfg struct {
	blocks    int
	maxEvents int
	dupid     bool // allow two OperatorAdded with the same id in one block (finding F10, fixed)
	stale     bool // now and then feed a block that is not newer than the last processed one
	crashy    bool // favour events with key-manager side effects
}

type gen struct {
	run    *runner
	r      *hx.Rand
	cfg    genCfg
	n      *node
	nonceD map[uint64]uint64 // ValidatorAdded events of the owner generated so far in this block
	pres   map[uint64]uint64 // validator -> owner, as the generator believes within the block
	comm   map[uint64][]uint64
	opIDs  []uint64
	added  map[uint64]bool // operator ids added in this block
	self   uint64
	nextOp uint64
}

func (g *gen) refresh() {
	st := g.run.before()
	g.nonceD = map[uint64]uint64{}
	g.added = map[uint64]bool{}
	g.pres = map[uint64]uint64{}
	g.comm = map[uint64][]uint64{}
	for _, l := range st.shares {
		w := strings.Fields(l)
		v := parseU(w[1])
		g.pres[v] = parseU(w[2])
		var ids []uint64
		if len(w) > 7 {
			for _, p := range strings.Split(w[7], ",") {
				ids = append(ids, parseU(strings.Split(p, ":")[0]))
			}
		}
		g.comm[v] = ids
	}
	g.opIDs = g.opIDs[:0]
	for id := range parseOps(st) {
		g.opIDs = append(g.opIDs, id)
	}
	sortU(g.opIDs)
	g.self = parseU(strings.TrimPrefix(st.self, "self "))
	g.nextOp = 1
	for _, id := range g.opIDs {
		if id >= g.nextOp {
			g.nextOp = id + 1
		}
	}
}

func sortU(l []uint64) {
	for i := 1; i < len(l); i++ {
		for j := i; j > 0 && l[j] < l[j-1]; j-- {
			l[j], l[j-1] = l[j-1], l[j]
		}
	}
}

func (g *gen) expectedNonce(owner uint64) uint64 {
	n, err := g.n.storage.GetNextNonce(nil, addr(owner))
	if err != nil {
		panic(err)
	}
	return (uint64(n) + g.nonceD[owner]) % 65536
}

func (g *gen) committee() []uint64 {
	r := g.r
	ids := append([]uint64{}, g.opIDs...)
	// operators added earlier in this very block are visible to the committee check through the block
	// transaction, although they are not committed yet
	if r.Chance(2, 3) {
		var fresh []uint64
		for id := range g.added {
			if !containsU(ids, id) {
				fresh = append(fresh, id)
			}
		}
		sortU(fresh)
		ids = append(ids, fresh...)
	}
	if len(ids) < 4 {
		return []uint64{1, 2, 3, 4}
	}
	// shuffle
	for i := len(ids) - 1; i > 0; i-- {
		j := r.Intn(i + 1)
		ids[i], ids[j] = ids[j], ids[i]
	}
	size := 4
	if len(ids) >= 7 && r.Chance(1, 5) {
		size = 7
	}
	c := ids[:size]
	// usually make sure the node's own operator is in (when it has an id)
	if g.self != 0 && !containsU(c, g.self) && containsU(g.opIDs, g.self) && r.Chance(3, 4) {
		c[r.Intn(size)] = g.self
	}
	if r.Chance(1, 2) {
		sortU(c)
	}
	return append([]uint64{}, c...)
}

func (g *gen) badCommittee() []uint64 {
	c := g.committee()
	switch g.r.Intn(6) {
	case 0: // duplicate operator
		c[1] = c[0]
	case 1: // unknown operator
		c[g.r.Intn(len(c))] = 99
	case 2: // size 3
		c = c[:3]
	case 3: // size 5
		c = append(c, g.nextOp+50)
	case 4: // none
		c = nil
	default: // too many
		c = nil
		for i := uint64(1); i <= 14; i++ {
			c = append(c, i)
		}
	}
	return c
}

func (g *gen) validatorAdded() *absEvent {
	r := g.r
	e := &absEvent{kind: "VA", owner: uint64(1 + r.Intn(3))}
	// validator: mostly a new one
	var absent, present []uint64
	for v := uint64(1); v <= nValidators; v++ {
		if _, ok := g.pres[v]; ok {
			present = append(present, v)
		} else {
			absent = append(absent, v)
		}
	}
	switch {
	case r.Chance(1, 25):
		e.v = hx.Pick(r, uint64(badPkFF), uint64(badPkShort))
	case len(absent) > 0 && (len(present) == 0 || r.Chance(4, 5)):
		e.v = absent[r.Intn(len(absent))]
	default:
		e.v = present[r.Intn(len(present))]
		if r.Chance(1, 2) {
			e.owner = g.pres[e.v] // duplicate add by the same owner
		}
	}
	if r.Chance(1, 8) {
		e.ops = g.badCommittee()
	} else {
		e.ops = g.committee()
	}
	exp := g.expectedNonce(e.owner)
	g.nonceD[e.owner]++
	poolV := e.v
	if poolV > nValidators {
		poolV = 1
	}
	valid := true
	// signature
	switch {
	case e.v > nValidators:
		e.sigKind, valid = "rand", false
	case r.Chance(5, 6):
		e.sig = &[3]uint64{e.v, e.owner, exp}
	default:
		valid = false
		switch r.Intn(5) {
		case 0: // replayed nonce
			n := exp + 1
			if exp > 0 && r.Chance(2, 3) {
				n = exp - 1
			}
			e.sig = &[3]uint64{e.v, e.owner, n}
		case 1: // signed for another owner
			e.sig = &[3]uint64{e.v, e.owner%3 + 1, exp}
		case 2: // signed by another validator key
			e.sig = &[3]uint64{e.v%nValidators + 1, e.owner, exp}
		case 3:
			e.sigKind = "rand"
		default:
			e.sigKind = "other"
		}
	}
	// shares
	for i, op := range e.ops {
		s := shareEnt{spk: spkID(poolV, i%maxPos), kind: "na"}
		if g.self != 0 && op == g.self {
			if r.Chance(6, 7) {
				s.kind, s.ok = "ok", true
			} else {
				s.kind = hx.Pick(r, "rsa", "garb", "mism", "nothex")
				valid = false
			}
		} else if r.Chance(1, 20) {
			s.kind, s.ok = "ok", true // encrypted for this node although the position is not its own
		}
		e.shares = append(e.shares, s)
	}
	e.length = expectedLen(len(e.ops))
	if r.Chance(1, 12) {
		valid = false
		d := hx.Pick(r, -1, 1, -256, 304, -48, 96)
		if int64(e.length)+int64(d) >= 0 {
			e.length = uint64(int64(e.length) + int64(d))
		} else {
			e.length++
		}
	}
	if valid && validSize(len(e.ops)) {
		if _, ok := g.pres[e.v]; !ok {
			g.pres[e.v] = e.owner
			g.comm[e.v] = e.ops
		}
	}
	return e
}

func (g *gen) pickPresent() (uint64, bool) {
	var l []uint64
	for v := range g.pres {
		l = append(l, v)
	}
	if len(l) == 0 {
		return uint64(1 + g.r.Intn(nValidators)), false
	}
	sortU(l)
	return l[g.r.Intn(len(l))], true
}

func (g *gen) event() *absEvent {
	r := g.r
	x := r.Intn(100)
	if g.cfg.crashy {
		x = r.Intn(80) // fewer no-op kinds
	}
	switch {
	case x < 34:
		return g.validatorAdded()
	case x < 48: // ValidatorRemoved
		v, ok := g.pickPresent()
		e := &absEvent{kind: "VR", v: v, owner: g.pres[v], ops: g.comm[v]}
		switch {
		case !ok || r.Chance(1, 10):
			e.v, e.owner = uint64(1+r.Intn(nValidators+1)), uint64(1+r.Intn(3))
			if r.Chance(1, 4) {
				e.v = badPkFF
			}
		case r.Chance(1, 6):
			e.owner = e.owner%3 + 1 // not the owner
		}
		if o, ok := g.pres[e.v]; ok && o == e.owner {
			delete(g.pres, e.v)
		}
		return e
	case x < 58: // cluster events
		v, ok := g.pickPresent()
		e := &absEvent{kind: hx.Pick(r, "CL", "CR"), owner: g.pres[v], ops: append([]uint64{}, g.comm[v]...)}
		if !ok || r.Chance(1, 6) {
			e.owner, e.ops = uint64(1+r.Intn(3)), g.committee()
		}
		if len(e.ops) > 1 && r.Chance(1, 2) { // the cluster id does not depend on the order
			i, j := r.Intn(len(e.ops)), r.Intn(len(e.ops))
			e.ops[i], e.ops[j] = e.ops[j], e.ops[i]
		}
		return e
	case x < 66: // ValidatorExited
		v, ok := g.pickPresent()
		e := &absEvent{kind: "VX", v: v, owner: g.pres[v], ops: g.comm[v], blk: uint64(1000 + r.Intn(1000))}
		if !ok || r.Chance(1, 8) {
			e.v, e.owner = uint64(1+r.Intn(nValidators)), uint64(1+r.Intn(3))
		} else if r.Chance(1, 5) {
			e.owner = e.owner%3 + 1
		}
		return e
	case x < 76: // FeeRecipientAddressUpdated
		return &absEvent{kind: "FR", owner: uint64(1 + r.Intn(4)), fee: uint64(1 + r.Intn(5))}
	case x < 86: // OperatorAdded
		e := &absEvent{kind: "OA", owner: uint64(1 + r.Intn(3)), pk: uint64(2 + r.Intn(8))}
		var inBlock []uint64
		for id := range g.added {
			inBlock = append(inBlock, id)
		}
		sortU(inBlock)
		switch {
		case g.cfg.dupid && len(inBlock) > 0 && r.Chance(1, 5): // an id added earlier in this very block
			e.id = inBlock[r.Intn(len(inBlock))]
		case r.Chance(1, 4) && len(g.opIDs) > 0: // an id that exists already
			e.id = g.opIDs[r.Intn(len(g.opIDs))]
		default:
			e.id = g.nextOp
			g.nextOp++
		}
		if r.Chance(1, 4) {
			e.pk = ownPkID // own key: first registration, or a second id for the same key (malformed)
		}
		if g.added[e.id] && !g.cfg.dupid {
			e.id = g.nextOp
			g.nextOp++
		}
		g.added[e.id] = true
		return e
	case x < 90:
		e := &absEvent{kind: "OR", id: uint64(1 + r.Intn(6))}
		if r.Chance(1, 3) {
			e.id = 99
		}
		return e
	default:
		return &absEvent{kind: "XX", xx: hx.Pick(r, "topic", "trunc", "notopic", "oapk")}
	}
}

// setup: the operators; whether / where the node's own key is registered varies
func (g *gen) setup() []*absEvent {
	r := g.r
	nOps := hx.Pick(r, 4, 4, 5, 7, 8)
	ownAt := 0 // 0: not in the setup block
	switch x := r.Intn(10); {
	case x < 6:
		ownAt = 1 + r.Intn(4)
	case x < 7:
		ownAt = nOps
	}
	var evs []*absEvent
	for id := 1; id <= nOps; id++ {
		pk := uint64(id + 1)
		if id == ownAt {
			pk = ownPkID
		}
		evs = append(evs, &absEvent{kind: "OA", id: uint64(id), owner: uint64(1 + r.Intn(3)), pk: pk})
		g.added[uint64(id)] = true
	}
	return evs
}

func generate(r *hx.Rand, cfg genCfg) []*item {
	n := newNode()
	defer n.close()
	run := &runner{n: n, light: true}
	g := &gen{r: r, cfg: cfg, n: n, run: run}
	var items []*item
	push := func(it *item) {
		items = append(items, it)
		run.exec(it)
	}
	num := uint64(0)
	g.refresh()
	num += 100
	push(&item{kind: "block", num: num, evs: g.setup()})
	for b := 0; b < cfg.blocks; b++ {
		g.refresh()
		// between blocks
		if r.Chance(1, 6) {
			if v, ok := g.pickPresent(); ok || r.Chance(1, 3) {
				push(&item{kind: "meta", v: v, idx: uint64(100 + r.Intn(900))})
			}
		}
		if r.Chance(1, 7) {
			if v, ok := g.pickPresent(); ok {
				push(&item{kind: "decided", v: v})
			}
		}
		if r.Chance(1, 8) && !cfg.crashy {
			push(&item{kind: "restart"})
		}
		if cfg.stale && r.Chance(1, 12) {
			stale := num - uint64(r.Intn(2))*50
			evs := []*absEvent{g.event()}
			if r.Chance(1, 2) {
				evs = nil // a stale block without logs (a duplicated progress marker)
			}
			push(&item{kind: "block", num: stale, evs: evs})
			g.refresh()
		}
		num += 100
		k := r.Intn(cfg.maxEvents + 1)
		if cfg.crashy && k == 0 {
			k = 1
		}
		if r.Chance(1, 15) {
			k += 6
		}
		var evs []*absEvent
		for i := 0; i < k; i++ {
			evs = append(evs, g.event())
		}
		push(&item{kind: "block", num: num, evs: evs})
	}
	return items
}

// ---- fixed histories -------------------------------------------------------------------------------------

func opsBlock(num uint64, ownAt int) *item {
	var evs []*absEvent
	for id := 1; id <= 4; id++ {
		pk := uint64(id + 1)
		if id == ownAt {
			pk = ownPkID
		}
		evs = append(evs, &absEvent{kind: "OA", id: uint64(id), owner: 1, pk: pk})
	}
	return &item{kind: "block", num: num, evs: evs}
}

func validAdd(v, owner, nonce, self uint64, ops []uint64) *absEvent {
	e := &absEvent{kind: "VA", owner: owner, v: v, ops: ops, sig: &[3]uint64{v, owner, nonce}, length: expectedLen(len(ops))}
	for i, op := range ops {
		s := shareEnt{spk: spkID(v, i), kind: "na"}
		if op == self && self != 0 {
			s.kind, s.ok = "ok", true
		}
		e.shares = append(e.shares, s)
	}
	return e
}

func scripted(out *hx.Out) {
	c := []uint64{1, 2, 3, 4}
	// 1. the uint16 edge of the registration nonce: 65535 + 1 = 0
	runPlain(out, "scripted nonce-wrap", []*item{
		opsBlock(100, 2),
		{kind: "seed", owner: 1, count: 65535}, // stored nonce 65534, next expected 65535
		{kind: "block", num: 200, evs: []*absEvent{validAdd(1, 1, 65535, 2, c)}},
		{kind: "block", num: 300, evs: []*absEvent{validAdd(2, 1, 0, 2, c)}}, // wrapped
		{kind: "block", num: 400, evs: []*absEvent{validAdd(3, 1, 65536, 2, c), validAdd(3, 1, 2, 2, c)}},
	})
	// 2. add, remove and re-add in one block; duplicate add by another owner; remove by a stranger
	runPlain(out, "scripted add-remove-readd", []*item{
		opsBlock(100, 1),
		{kind: "block", num: 200, evs: []*absEvent{
			validAdd(1, 1, 0, 1, c),
			{kind: "VR", owner: 2, v: 1, ops: c},
			{kind: "VR", owner: 1, v: 1, ops: c},
			validAdd(1, 1, 1, 1, c),
			validAdd(1, 2, 0, 1, c),
		}},
		{kind: "meta", v: 1, idx: 7},
		{kind: "block", num: 300, evs: []*absEvent{
			{kind: "VX", owner: 2, v: 1, ops: c, blk: 300},
			{kind: "VX", owner: 1, v: 1, ops: c, blk: 300},
			{kind: "CL", owner: 1, ops: []uint64{4, 3, 2, 1}},
			{kind: "CR", owner: 1, ops: c},
		}},
		{kind: "restart"},
		{kind: "block", num: 300, evs: []*absEvent{{kind: "FR", owner: 1, fee: 5}}}, // not newer: refused
	})
	// 3. fee recipient before the first add (nil nonce), then adds
	runPlain(out, "scripted nil-nonce", []*item{
		opsBlock(100, 0),
		{kind: "block", num: 200, evs: []*absEvent{{kind: "FR", owner: 1, fee: 3}, validAdd(1, 1, 0, 0, c), validAdd(2, 1, 1, 0, c)}},
	})
	// 4. crash points of a block with reactivation before removal (slashing records) and an add
	base := []*item{
		opsBlock(100, 1),
		{kind: "block", num: 200, evs: []*absEvent{validAdd(1, 1, 0, 1, c), validAdd(2, 1, 1, 1, c)}},
		{kind: "decided", v: 1},
		{kind: "block", num: 300, evs: []*absEvent{
			{kind: "CR", owner: 1, ops: c},
			{kind: "VR", owner: 1, v: 1, ops: c},
			validAdd(3, 1, 2, 1, c),
		}},
		{kind: "block", num: 400, evs: []*absEvent{{kind: "VR", owner: 1, v: 3, ops: c}}},
	}
	st, writes, _ := silentFinal(base)
	bi := 0
	for i, it := range base {
		if it.kind != "block" {
			continue
		}
		w := writes[bi]
		bi++
		if it.num != 300 {
			continue
		}
		for k := 0; k <= w; k++ {
			for _, mode := range []string{"kill", "fail"} {
				if mode == "fail" && k == w {
					continue
				}
				ci := append(append([]*item{}, base[:i]...), &item{kind: "crash", num: it.num, evs: it.evs, k: k, mode: mode})
				ci = append(ci, base[i:]...)
				runCrash(out, fmt.Sprintf("scripted crash block=300 k=%d/%d %s", k, w, mode), ci, st)
			}
		}
	}
}

// findingDupID: two OperatorAdded events with the same operator id in ONE block.  SaveOperatorData
// checks existence against the committed database (nil reader), not the block transaction, so the
// second event overwrites the first; in two blocks it is ignored.
func findingDupID(out *hx.Out) {
	runPlain(out, "finding dup-operator-id own-then-other", []*item{
		{kind: "block", num: 100, evs: []*absEvent{
			{kind: "OA", id: 5, owner: 1, pk: ownPkID},
			{kind: "OA", id: 5, owner: 2, pk: 7},
		}},
	})
	runPlain(out, "finding dup-operator-id other-then-own", []*item{
		{kind: "block", num: 100, evs: []*absEvent{
			{kind: "OA", id: 5, owner: 2, pk: 7},
			{kind: "OA", id: 5, owner: 1, pk: ownPkID},
		}},
	})
}
