package main

// The node under test: real nodestorage + real ekm + real EventHandler over an in-memory badger
// database behind a write-counting / fault-injecting wrapper, a recording task executor, and the
// observation functions (getters, raw database dump, fresh reload).

import (
	"encoding/hex"
	"encoding/json"
	"errors"
	"fmt"
	"math/big"
	"sort"
	"strings"
	"sync"

	"github.com/attestantio/go-eth2-client/spec/phase0"
	specqbft "github.com/bloxapp/ssv-spec/qbft"
	spectypes "github.com/bloxapp/ssv-spec/types"
	"github.com/dgraph-io/badger/v4"
	ethcommon "github.com/ethereum/go-ethereum/common"
	ethtypes "github.com/ethereum/go-ethereum/core/types"
	"go.uber.org/zap"

	"github.com/bloxapp/ssv/ekm"
	"github.com/bloxapp/ssv/eth/contract"
	"github.com/bloxapp/ssv/eth/eventhandler"
	"github.com/bloxapp/ssv/eth/eventparser"
	"github.com/bloxapp/ssv/eth/executionclient"
	ibftstorage "github.com/bloxapp/ssv/ibft/storage"
	"github.com/bloxapp/ssv/networkconfig"
	operatordatastore "github.com/bloxapp/ssv/operator/datastore"
	operatorstorage "github.com/bloxapp/ssv/operator/storage"
	"github.com/bloxapp/ssv/protocol/v2/blockchain/beacon"
	qbftstorage "github.com/bloxapp/ssv/protocol/v2/qbft/storage"
	ssvtypes "github.com/bloxapp/ssv/protocol/v2/types"
	registrystorage "github.com/bloxapp/ssv/registry/storage"
	"github.com/bloxapp/ssv/storage/basedb"
	"github.com/bloxapp/ssv/storage/kv"
)

// ---- fixed beacon clock ------------------------------------------------------------------------------

type fixedNet struct{ beacon.Network }

const fixedSlot = 3200000

func (fixedNet) EstimatedCurrentSlot() phase0.Slot   { return fixedSlot }
func (fixedNet) EstimatedCurrentEpoch() phase0.Epoch { return fixedSlot / 32 }

var netcfg = networkconfig.NetworkConfig{
	Name:   "verif",
	Beacon: fixedNet{beacon.NewNetwork(spectypes.PraterNetwork)},
	Domain: networkconfig.TestNetwork.Domain,
}

// ---- database wrapper: counts write calls, kills or fails the k-th ------------------------------

type crashSentinel struct{}

var errInjected = errors.New("injected storage failure")

type faultDB struct {
	basedb.Database
	mu      sync.Mutex
	applied int    // write calls completed since reset
	cut     int    // -1: off; k: the call after k completed ones is hit
	mode    string // kill | fail
	hit     bool
	log     []string
	logOn   bool
}

// before is called at the start of every write call; it returns an error to inject (fail mode) or
// panics (kill mode) when this is the call to hit.
func (f *faultDB) before(what string) error {
	f.mu.Lock()
	defer f.mu.Unlock()
	if f.cut >= 0 && f.applied == f.cut && !f.hit {
		f.hit = true
		if f.mode == "fail" {
			f.applied++ // the failed call still was a call: later calls keep their numbers
			return errInjected
		}
		panic(crashSentinel{})
	}
	if f.cut >= 0 && f.hit && f.mode == "kill" {
		panic(crashSentinel{})
	}
	if f.logOn {
		f.log = append(f.log, what)
	}
	return nil
}

func (f *faultDB) done() { f.mu.Lock(); f.applied++; f.mu.Unlock() }

func (f *faultDB) reset(cut int, mode string) {
	f.mu.Lock()
	f.applied, f.cut, f.mode, f.hit, f.log = 0, cut, mode, false, nil
	f.mu.Unlock()
}

func desc(op string, prefix, key []byte) string {
	return op + ":" + printable(prefix) + "|" + printable(key)
}

func printable(b []byte) string {
	ok := true
	for _, c := range b {
		if c < 32 || c > 126 {
			ok = false
		}
	}
	if ok {
		return string(b)
	}
	if len(b) > 12 {
		return "0x" + hex.EncodeToString(b[:12]) + ".."
	}
	return "0x" + hex.EncodeToString(b)
}

func (f *faultDB) Set(prefix, key, value []byte) error {
	if err := f.before(desc("set", prefix, key)); err != nil {
		return err
	}
	err := f.Database.Set(prefix, key, value)
	f.done()
	return err
}

func (f *faultDB) SetMany(prefix []byte, n int, next func(int) (basedb.Obj, error)) error {
	if err := f.before(desc("setmany", prefix, nil)); err != nil {
		return err
	}
	err := f.Database.SetMany(prefix, n, next)
	f.done()
	return err
}

func (f *faultDB) Delete(prefix, key []byte) error {
	if err := f.before(desc("delete", prefix, key)); err != nil {
		return err
	}
	err := f.Database.Delete(prefix, key)
	f.done()
	return err
}

func (f *faultDB) DeletePrefix(prefix []byte) (int, error) {
	if err := f.before(desc("deleteprefix", prefix, nil)); err != nil {
		return 0, err
	}
	n, err := f.Database.DeletePrefix(prefix)
	f.done()
	return n, err
}

func (f *faultDB) Begin() basedb.Txn { return &faultTxn{Txn: f.Database.Begin(), f: f} }

func (f *faultDB) Using(rw basedb.ReadWriter) basedb.ReadWriter {
	if rw == nil {
		return f
	}
	return rw
}

func (f *faultDB) UsingReader(r basedb.Reader) basedb.Reader {
	if r == nil {
		return f
	}
	return r
}

type faultTxn struct {
	basedb.Txn
	f *faultDB
}

func (t *faultTxn) Set(prefix, key, value []byte) error {
	if err := t.f.before(desc("txn.set", prefix, key)); err != nil {
		return err
	}
	err := t.Txn.Set(prefix, key, value)
	t.f.done()
	return err
}

func (t *faultTxn) SetMany(prefix []byte, n int, next func(int) (basedb.Obj, error)) error {
	if err := t.f.before(desc("txn.setmany", prefix, nil)); err != nil {
		return err
	}
	err := t.Txn.SetMany(prefix, n, next)
	t.f.done()
	return err
}

func (t *faultTxn) Delete(prefix, key []byte) error {
	if err := t.f.before(desc("txn.delete", prefix, key)); err != nil {
		return err
	}
	err := t.Txn.Delete(prefix, key)
	t.f.done()
	return err
}

func (t *faultTxn) Commit() error {
	if err := t.f.before("txn.commit"); err != nil {
		return err
	}
	err := t.Txn.Commit()
	t.f.done()
	return err
}

// ---- recording task executor -------------------------------------------------------------------------

type recorder struct{ tasks []string }

func vID(pk []byte) uint64 {
	if id, ok := pl.vByPub[string(pk)]; ok {
		return id
	}
	return 99999
}

func sID(pk []byte) uint64 {
	if len(pk) == 0 {
		return 0
	}
	if id, ok := pl.sByPub[string(pk)]; ok {
		return id
	}
	return 99999
}

func joinU(l []uint64) string {
	s := make([]string, len(l))
	for i, x := range l {
		s[i] = fmt.Sprint(x)
	}
	return strings.Join(s, ",")
}

func shareVs(l []*ssvtypes.SSVShare) string {
	ids := make([]uint64, 0, len(l))
	for _, s := range l {
		ids = append(ids, vID(s.ValidatorPubKey))
	}
	sort.Slice(ids, func(i, j int) bool { return ids[i] < ids[j] })
	return joinU(ids)
}

func (r *recorder) StartValidator(share *ssvtypes.SSVShare) error {
	r.tasks = append(r.tasks, fmt.Sprintf("task start %d", vID(share.ValidatorPubKey)))
	return nil
}
func (r *recorder) StopValidator(pubKey spectypes.ValidatorPK) error {
	r.tasks = append(r.tasks, fmt.Sprintf("task stop %d", vID(pubKey)))
	return nil
}
func (r *recorder) LiquidateCluster(owner ethcommon.Address, operatorIDs []uint64, toLiquidate []*ssvtypes.SSVShare) error {
	r.tasks = append(r.tasks, fmt.Sprintf("task liq %d ops=%s vs=%s", addrID(owner.Bytes()), joinU(operatorIDs), shareVs(toLiquidate)))
	return nil
}
func (r *recorder) ReactivateCluster(owner ethcommon.Address, operatorIDs []uint64, toReactivate []*ssvtypes.SSVShare) error {
	r.tasks = append(r.tasks, fmt.Sprintf("task react %d ops=%s vs=%s", addrID(owner.Bytes()), joinU(operatorIDs), shareVs(toReactivate)))
	return nil
}
func (r *recorder) UpdateFeeRecipient(owner, recipient ethcommon.Address) error {
	r.tasks = append(r.tasks, fmt.Sprintf("task fee %d %d", addrID(owner.Bytes()), addrID(recipient.Bytes())))
	return nil
}
func (r *recorder) ExitValidator(pubKey phase0.BLSPubKey, blockNumber uint64, validatorIndex phase0.ValidatorIndex) error {
	r.tasks = append(r.tasks, fmt.Sprintf("task exit %d %d %d", vID(pubKey[:]), blockNumber, validatorIndex))
	return nil
}

// ---- the node ---------------------------------------------------------------------------------------

type node struct {
	inner   *kv.BadgerDB
	db      *faultDB
	storage operatorstorage.Storage
	ods     operatordatastore.OperatorDataStore
	km      spectypes.KeyManager
	stores  *ibftstorage.QBFTStores
	eh      *eventhandler.EventHandler
	rec     *recorder
}

var nopLogger = zap.NewNop()

// Opening an in-memory badger allocates (and clears) its 64 MB memtable arena, ~70 ms; instances are
// therefore reused: a "fresh" database is a real badger instance from which every key was deleted.
var (
	dbPoolMu sync.Mutex
	dbPool   []*kv.BadgerDB
)

func freshDB() *kv.BadgerDB {
	dbPoolMu.Lock()
	var inner *kv.BadgerDB
	if len(dbPool) > 0 {
		inner = dbPool[len(dbPool)-1]
		dbPool = dbPool[:len(dbPool)-1]
	}
	dbPoolMu.Unlock()
	if inner == nil {
		var err error
		inner, err = kv.NewInMemory(nopLogger, basedb.Options{})
		if err != nil {
			panic(err)
		}
		return inner
	}
	var keys [][]byte
	err := inner.Badger().View(func(txn *badger.Txn) error {
		it := txn.NewIterator(badger.IteratorOptions{})
		defer it.Close()
		for it.Rewind(); it.Valid(); it.Next() {
			keys = append(keys, it.Item().KeyCopy(nil))
		}
		return nil
	})
	if err == nil && len(keys) > 0 {
		err = inner.Badger().Update(func(txn *badger.Txn) error {
			for _, k := range keys {
				if err := txn.Delete(k); err != nil {
					return err
				}
			}
			return nil
		})
	}
	if err != nil {
		panic(err)
	}
	return inner
}

func newNode() *node {
	inner := freshDB()
	n := &node{inner: inner, db: &faultDB{Database: inner, cut: -1}}
	n.start()
	return n
}

func (n *node) close() {
	dbPoolMu.Lock()
	dbPool = append(dbPool, n.inner)
	dbPoolMu.Unlock()
}

// start builds every in-memory object anew over the database, the way cli/operator/node.go does at
// process start: NewNodeStorage (loads the share map), operator data looked up by public key,
// NewETHKeyManagerSigner (reopens the wallet), a new EventHandler.
func (n *node) start() {
	n.db.reset(-1, "")
	var err error
	n.storage, err = operatorstorage.NewNodeStorage(nopLogger, n.db)
	if err != nil {
		panic(err)
	}
	od, found, err := n.storage.GetOperatorDataByPubKey(nil, pl.ownPub)
	if err != nil {
		panic(err)
	}
	if !found {
		od = &registrystorage.OperatorData{PublicKey: pl.ownPub}
	}
	n.ods = operatordatastore.New(od)
	n.km, err = ekm.NewETHKeyManagerSigner(nopLogger, n.db, netcfg, true, "")
	if err != nil {
		panic(err)
	}
	n.stores = ibftstorage.NewStoresFromRoles(n.db, spectypes.BNRoleAttester)
	if multiStores {
		// as the node has: one decided store per consensus role (the stores mode; the model and the other runs
		// count the storage calls of ONE store)
		n.stores = ibftstorage.NewStoresFromRoles(n.db, spectypes.BNRoleAttester, spectypes.BNRoleAggregator, spectypes.BNRoleProposer,
			spectypes.BNRoleSyncCommittee, spectypes.BNRoleSyncCommitteeContribution)
	}
	filterer, err := contract.NewContractFilterer(ethcommon.Address{}, nil)
	if err != nil {
		panic(err)
	}
	n.rec = &recorder{}
	n.eh, err = eventhandler.New(n.storage, eventparser.New(filterer), n.rec, netcfg, n.ods, pl.own, n.km, nil,
		n.stores, eventhandler.WithFullNode(), eventhandler.WithLogger(nopLogger))
	if err != nil {
		panic(err)
	}
}

// multiStores: build the node with one decided store per role (mode stores, monitor only).
var multiStores bool

type blockResult struct {
	status  string // ok | inferior | error | crash
	tasks   []string
	writes  int
	errText string
}

// processBlock feeds one block through the exported entry point (HandleBlockEventsStream with task
// execution, so the tasks reach the recording executor).  cut < 0: no fault.
func (n *node) processBlock(num uint64, evs []*absEvent, cut int, mode string) (res blockResult) {
	logs := make([]ethtypes.Log, 0, len(evs))
	for i, e := range evs {
		logs = append(logs, pl.toLog(e, num, uint(i)))
	}
	ch := make(chan executionclient.BlockLogs, 1)
	ch <- executionclient.BlockLogs{BlockNumber: num, Logs: logs}
	close(ch)
	n.rec.tasks = nil
	n.db.reset(cut, mode)
	func() {
		defer func() {
			if r := recover(); r != nil {
				if _, ok := r.(crashSentinel); ok {
					res.status = "crash"
					return
				}
				panic(r)
			}
		}()
		_, err := n.eh.HandleBlockEventsStream(ch, true)
		switch {
		case err == nil:
			res.status = "ok"
		case errors.Is(err, eventhandler.ErrInferiorBlock):
			res.status = "inferior"
		default:
			res.status, res.errText = "error", err.Error()
		}
	}()
	n.db.mu.Lock()
	res.writes = n.db.applied
	n.db.cut = -1
	n.db.mu.Unlock()
	res.tasks = n.rec.tasks
	return res
}

func msgID(v uint64) []byte {
	id := spectypes.NewMsgID(netcfg.Domain, valPub(v), spectypes.BNRoleAttester)
	return id[:]
}

func (n *node) saveDecided(v uint64) {
	st := n.stores.Get(spectypes.BNRoleAttester)
	inst := &qbftstorage.StoredInstance{
		State:          &specqbft.State{ID: msgID(v), Height: 1, Share: &spectypes.Share{}},
		DecidedMessage: &specqbft.SignedMessage{Message: specqbft.Message{Identifier: msgID(v), Height: 1}, Signers: []uint64{1}, Signature: make([]byte, 96)},
	}
	if err := st.SaveHighestAndHistoricalInstance(inst); err != nil {
		panic(err)
	}
}

// ---- observation --------------------------------------------------------------------------------------

type shareObs struct {
	v    uint64
	line string
}

func shareLine(s *ssvtypes.SSVShare) shareObs {
	v := vID(s.ValidatorPubKey)
	comm := make([]string, 0, len(s.Committee))
	for _, op := range s.Committee {
		comm = append(comm, fmt.Sprintf("%d:%d", op.OperatorID, sID(op.PubKey)))
	}
	meta := "-"
	if s.BeaconMetadata != nil {
		meta = fmt.Sprint(uint64(s.BeaconMetadata.Index))
	}
	liq := 0
	if s.Liquidated {
		liq = 1
	}
	return shareObs{v, fmt.Sprintf("sh %d %d %d %d %d %s %s", v, addrID(s.OwnerAddress.Bytes()), s.OperatorID, sID(s.SharePubKey), liq, meta, strings.Join(comm, ","))}
}

func sharesLines(l []*ssvtypes.SSVShare) []string {
	obs := make([]shareObs, 0, len(l))
	for _, s := range l {
		obs = append(obs, shareLine(s))
	}
	sort.Slice(obs, func(i, j int) bool { return obs[i].v < obs[j].v })
	out := make([]string, len(obs))
	for i, o := range obs {
		out[i] = o.line
	}
	return out
}

// state is what a check compares: the registry as the getters show it, the raw recipients table,
// the marker, the key manager as a freshly opened wallet sees it, the decided store.
type state struct {
	ops, self string
	shares    []string
	rcp, last string
	use       []uint64
	att, prop []uint64
	hist, hi  []uint64
	memdb     bool
	memdbWhy  string
	residue   []string
}

// light: only what the getters and the recipients table show (no key manager, decided store or
// fresh reload) - used by the generator's scratch node and inside the one-event-per-block run.
func (n *node) observe() *state { return n.observeLevel(true) }

func (n *node) observeLevel(full bool) *state {
	st := &state{memdb: true}
	// operators
	ops, err := n.storage.ListOperators(nil, 0, 0)
	if err != nil {
		panic(err)
	}
	sort.Slice(ops, func(i, j int) bool { return ops[i].ID < ops[j].ID })
	parts := []string{}
	for _, o := range ops {
		parts = append(parts, fmt.Sprintf("%d:%d:%d", o.ID, addrID(o.OwnerAddress.Bytes()), opPkID(o.PublicKey)))
	}
	st.ops = "ops " + strings.Join(parts, " ")
	st.ops = strings.TrimRight(st.ops, " ")
	st.self = fmt.Sprintf("self %d", n.ods.GetOperatorID())
	// shares through the getter (in-memory map)
	st.shares = sharesLines(n.storage.Shares().List(nil))
	// recipients: raw table dump
	type rc struct {
		owner uint64
		s     string
	}
	var rcs []rc
	err = n.inner.GetAll([]byte("operator/recipients"), func(i int, obj basedb.Obj) error {
		var rd registrystorage.RecipientData
		if err := json.Unmarshal(obj.Value, &rd); err != nil {
			return err
		}
		nonce := "-"
		if rd.Nonce != nil {
			nonce = fmt.Sprint(uint64(*rd.Nonce))
		}
		o := addrID(rd.Owner.Bytes())
		rcs = append(rcs, rc{o, fmt.Sprintf("%d:%d:%s", o, addrID(rd.FeeRecipient[:]), nonce)})
		return nil
	})
	if err != nil {
		panic(err)
	}
	sort.Slice(rcs, func(i, j int) bool { return rcs[i].owner < rcs[j].owner })
	parts = parts[:0]
	for _, r := range rcs {
		parts = append(parts, r.s)
	}
	st.rcp = strings.TrimRight("rcp "+strings.Join(parts, " "), " ")
	// marker
	last, found, err := n.storage.GetLastProcessedBlock(nil)
	if err != nil {
		panic(err)
	}
	if !found {
		last = big.NewInt(0)
	}
	st.last = fmt.Sprintf("last %d", last.Uint64())
	if !full {
		return st
	}
	// key manager, as a freshly opened wallet sees it: the index entries whose account object loads
	// (AccountByPublicKey, the test AddShare / RemoveShare make), and the raw slashing-record tables
	sst := ekm.NewSignerStorage(n.inner, netcfg.Beacon, nopLogger)
	wallet, werr := sst.OpenWallet()
	usable := map[string]bool{}
	index := map[string]string{}
	if werr == nil {
		if raw, err := json.Marshal(wallet); err == nil {
			var w struct {
				IndexMapper map[string]string `json:"indexMapper"`
			}
			if json.Unmarshal(raw, &w) == nil {
				index = w.IndexMapper
			}
		}
		for pkHex := range index {
			pub, _ := hex.DecodeString(pkHex)
			if acc, err := wallet.AccountByPublicKey(pkHex); err == nil && acc != nil {
				st.use = append(st.use, sID(pub))
				usable[string(pub)] = true
			}
		}
	}
	netPrefix := string(netcfg.Beacon.GetBeaconNetwork())
	_ = n.inner.GetAll([]byte(netPrefix+"signer_data-highest_att-"), func(i int, obj basedb.Obj) error {
		st.att = append(st.att, sID(obj.Key))
		return nil
	})
	_ = n.inner.GetAll([]byte(netPrefix+"signer_data-highest_prop-"), func(i int, obj basedb.Obj) error {
		st.prop = append(st.prop, sID(obj.Key))
		return nil
	})
	sortU(st.use)
	sortU(st.att)
	sortU(st.prop)
	// raw wallet storage: account objects that no index entry reaches, index entries without object
	if accs, err := sst.ListAccounts(); err == nil {
		count := map[string]int{}
		for _, a := range accs {
			count[string(a.ValidatorPublicKey())]++
		}
		for pk, c := range count {
			extra := c
			if usable[pk] {
				extra--
			}
			if extra > 0 {
				st.residue = append(st.residue, fmt.Sprintf("orphan-account:%d:x%d", sID([]byte(pk)), extra))
			}
		}
	}
	for pkHex := range index {
		pk, _ := hex.DecodeString(pkHex)
		if !usable[string(pk)] {
			st.residue = append(st.residue, fmt.Sprintf("stale-index:%d", sID(pk)))
		}
	}
	for _, id := range st.att {
		if !containsU(st.use, id) {
			st.residue = append(st.residue, fmt.Sprintf("stale-slashing-record:%d", id))
		}
	}
	sort.Strings(st.residue)
	// decided store
	store := n.stores.Get(spectypes.BNRoleAttester)
	for v := uint64(1); v <= nValidators; v++ {
		if inst, _ := store.GetInstance(msgID(v), 1); inst != nil {
			st.hist = append(st.hist, v)
		}
		if inst, _ := store.GetHighestInstance(msgID(v)); inst != nil {
			st.hi = append(st.hi, v)
		}
	}
	// mem == db: a fresh load of the same database
	fresh, err := operatorstorage.NewNodeStorage(nopLogger, n.inner)
	if err != nil {
		panic(err)
	}
	dbShares := sharesLines(fresh.Shares().List(nil))
	st.memdb = strings.Join(dbShares, "\n") == strings.Join(st.shares, "\n")
	if !st.memdb {
		st.memdbWhy = fmt.Sprintf("share map %v != shares table %v", st.shares, dbShares)
	}
	od, found, err := fresh.GetOperatorDataByPubKey(nil, pl.ownPub)
	if err != nil {
		panic(err)
	}
	dbSelf := uint64(0)
	if found {
		dbSelf = od.ID
	}
	if dbSelf != n.ods.GetOperatorID() {
		st.memdb = false
		st.memdbWhy += fmt.Sprintf(" operator id in memory %d != by public key in db %d", n.ods.GetOperatorID(), dbSelf)
	}
	return st
}

func containsU(l []uint64, x uint64) bool {
	for _, y := range l {
		if y == x {
			return true
		}
	}
	return false
}

func (st *state) lines() []string {
	out := []string{st.ops, st.self}
	out = append(out, st.shares...)
	b := 0
	if st.memdb {
		b = 1
	}
	out = append(out, st.rcp, st.last,
		fmt.Sprintf("km use=%s att=%s prop=%s", joinU(st.use), joinU(st.att), joinU(st.prop)),
		fmt.Sprintf("dec hist=%s hi=%s", joinU(st.hist), joinU(st.hi)),
		fmt.Sprintf("memdb %d", b))
	return out
}

// registryKey is the part of the state C11's batching monitor and C12's crash monitor compare strictly.
func (st *state) registryKey() string {
	return strings.Join(append([]string{st.ops, st.self, st.rcp, st.last, "use=" + joinU(st.use),
		"hist=" + joinU(st.hist), "hi=" + joinU(st.hi)}, st.shares...), "\n")
}
