package main

// Abstract events, the key pool, and the construction of the real bytes: ABI-packed ethtypes.Log
// records that are then fed to the real eventparser / EventHandler.

import (
	"crypto/rand"
	"encoding/hex"
	"fmt"
	"math/big"
	"strconv"
	"strings"
	"sync"

	ethabi "github.com/ethereum/go-ethereum/accounts/abi"
	ethcommon "github.com/ethereum/go-ethereum/common"
	ethtypes "github.com/ethereum/go-ethereum/core/types"
	"github.com/ethereum/go-ethereum/crypto"
	"github.com/herumi/bls-eth-go-binary/bls"

	"github.com/bloxapp/ssv/eth/contract"
	"github.com/bloxapp/ssv/eth/eventparser"
	"github.com/bloxapp/ssv/operator/keys"
	"github.com/bloxapp/ssv/utils/threshold"
)

const (
	ownPkID     = 1  // abstract id of the node's own operator public key
	nValidators = 6  // validator ids 1..nValidators have real BLS keys
	maxPos      = 13 // share positions per validator
	badPkFF     = 90 // validator "public key" of 48 x 0xFF (does not deserialize)
	badPkShort  = 91 // validator "public key" of 47 bytes
	addrBase    = 0x5500000000
)

type valKeys struct {
	msk    *bls.SecretKey
	pub    []byte
	shares []*bls.SecretKey
	spub   [][]byte
}

type pool struct {
	own      keys.OperatorPrivateKey
	ownPub   []byte // base64 PEM, as stored in OperatorData.PublicKey
	other    keys.OperatorPrivateKey
	vals     map[uint64]*valKeys
	abi      *ethabi.ABI
	mu       sync.Mutex
	sigCache map[string][]byte
	encCache map[string][]byte
	vByPub   map[string]uint64
	sByPub   map[string]uint64
}

var pl *pool

func initPool() {
	threshold.Init()
	p := &pool{vals: map[uint64]*valKeys{}, sigCache: map[string][]byte{}, encCache: map[string][]byte{},
		vByPub: map[string]uint64{}, sByPub: map[string]uint64{}}
	var err error
	if p.own, err = keys.GeneratePrivateKey(); err != nil {
		panic(err)
	}
	if p.other, err = keys.GeneratePrivateKey(); err != nil {
		panic(err)
	}
	if p.ownPub, err = p.own.Public().Base64(); err != nil {
		panic(err)
	}
	for v := uint64(1); v <= nValidators; v++ {
		vk := &valKeys{msk: &bls.SecretKey{}}
		vk.msk.SetByCSPRNG()
		vk.pub = vk.msk.GetPublicKey().Serialize()
		for i := 0; i < maxPos; i++ {
			sk := &bls.SecretKey{}
			sk.SetByCSPRNG()
			vk.shares = append(vk.shares, sk)
			vk.spub = append(vk.spub, sk.GetPublicKey().Serialize())
			p.sByPub[string(vk.spub[i])] = spkID(v, i)
		}
		p.vals[v] = vk
		p.vByPub[string(vk.pub)] = v
	}
	p.vByPub[string(valPub(badPkFF))] = badPkFF
	p.vByPub[string(valPub(badPkShort))] = badPkShort
	p.abi, err = contract.ContractMetaData.GetAbi()
	if err != nil {
		panic(err)
	}
	pl = p
}

func spkID(v uint64, pos int) uint64 { return v*16 + uint64(pos) + 1 }

func spkKeys(id uint64) (*bls.SecretKey, []byte) {
	if id == 0 {
		return nil, make([]byte, 48)
	}
	v, pos := (id-1)/16, int((id-1)%16)
	vk := pl.vals[v]
	if vk == nil || pos >= maxPos {
		return nil, make([]byte, 48)
	}
	return vk.shares[pos], vk.spub[pos]
}

func valPub(v uint64) []byte {
	switch v {
	case badPkFF:
		b := make([]byte, 48)
		for i := range b {
			b[i] = 0xFF
		}
		return b
	case badPkShort:
		return make([]byte, 47)
	}
	if vk := pl0().vals[v]; vk != nil {
		return vk.pub
	}
	b := make([]byte, 48) // unknown id: a well-formed length, not a curve point
	b[0], b[47] = 0xEE, byte(v)
	return b
}

func pl0() *pool {
	if pl == nil {
		return &pool{vals: map[uint64]*valKeys{}}
	}
	return pl
}

func addr(id uint64) ethcommon.Address {
	return ethcommon.BigToAddress(new(big.Int).SetUint64(addrBase + id))
}

func addrID(a []byte) uint64 {
	x := new(big.Int).SetBytes(a)
	if x.IsUint64() && x.Uint64() >= addrBase && x.Uint64() < addrBase+100000 {
		return x.Uint64() - addrBase
	}
	return 99999
}

func opPk(id uint64) []byte {
	if id == ownPkID {
		return pl.ownPub
	}
	return []byte(fmt.Sprintf("verif-operator-public-key-%d", id))
}

func opPkID(b []byte) uint64 {
	if string(b) == string(pl.ownPub) {
		return ownPkID
	}
	if s := string(b); strings.HasPrefix(s, "verif-operator-public-key-") {
		n, _ := strconv.ParseUint(strings.TrimPrefix(s, "verif-operator-public-key-"), 10, 64)
		return n
	}
	return 99999
}

// ---- abstract events ------------------------------------------------------------------------------

type shareEnt struct {
	spk  uint64
	ok   bool
	kind string // ok | rsa | garb | mism | nothex | na
}

type absEvent struct {
	kind                  string // OA OR VA VR VX CL CR FR XX
	id, owner, pk, v, fee uint64
	blk                   uint64
	ops                   []uint64
	length                uint64     // VA: len(Shares)
	sig                   *[3]uint64 // VA: (validator, owner, nonce) the signature is valid for; nil: none
	sigKind               string     // for sig == nil: rand | other
	shares                []shareEnt
	xx                    string // XX: topic | trunc | notopic | oapk  (a log with EMPTY data is not one:
	// go-ethereum's UnpackLog skips empty data and the event parses with zero values)
}

func u64s(l []uint64) string {
	s := strconv.Itoa(len(l))
	for _, x := range l {
		s += " " + strconv.FormatUint(x, 10)
	}
	return s
}

// line is the abstract op line (after the leading "E "); tokens after the model's fields are hints
// for replay and are ignored by the model runner.
func (e *absEvent) line() string {
	switch e.kind {
	case "OA":
		return fmt.Sprintf("OA %d %d %d", e.id, e.owner, e.pk)
	case "OR":
		return fmt.Sprintf("OR %d", e.id)
	case "VA":
		sg := "-"
		if e.sig != nil {
			sg = fmt.Sprintf("%d %d %d", e.sig[0], e.sig[1], e.sig[2])
		}
		sh := strconv.Itoa(len(e.shares))
		kinds := []string{}
		for _, s := range e.shares {
			ok := 0
			if s.ok {
				ok = 1
			}
			sh += fmt.Sprintf(" %d %d", s.spk, ok)
			kinds = append(kinds, s.kind)
		}
		return fmt.Sprintf("VA %d %d %d %s %s %s k=%s sg=%s", e.owner, e.v, e.length, sg, u64s(e.ops), sh,
			strings.Join(kinds, ","), e.sigKind)
	case "VR":
		return fmt.Sprintf("VR %d %d %s", e.owner, e.v, u64s(e.ops))
	case "VX":
		return fmt.Sprintf("VX %d %d %d %s", e.owner, e.v, e.blk, u64s(e.ops))
	case "CL", "CR":
		return fmt.Sprintf("%s %d %s", e.kind, e.owner, u64s(e.ops))
	case "FR":
		return fmt.Sprintf("FR %d %d", e.owner, e.fee)
	}
	return "XX " + e.xx
}

func expectedLen(n int) uint64 { return uint64(96 + 48*n + 256*n) }

func parseU(s string) uint64 { n, _ := strconv.ParseUint(s, 10, 64); return n }

func parseList(w []string) ([]uint64, []string) {
	n := int(parseU(w[0]))
	l := make([]uint64, 0, n)
	for i := 0; i < n; i++ {
		l = append(l, parseU(w[1+i]))
	}
	return l, w[1+n:]
}

func parseEvent(w []string) *absEvent {
	e := &absEvent{kind: w[0]}
	switch w[0] {
	case "OA":
		e.id, e.owner, e.pk = parseU(w[1]), parseU(w[2]), parseU(w[3])
	case "OR":
		e.id = parseU(w[1])
	case "VA":
		e.owner, e.v, e.length = parseU(w[1]), parseU(w[2]), parseU(w[3])
		rest := w[4:]
		if rest[0] == "-" {
			rest = rest[1:]
		} else {
			e.sig = &[3]uint64{parseU(rest[0]), parseU(rest[1]), parseU(rest[2])}
			rest = rest[3:]
		}
		e.ops, rest = parseList(rest)
		n := int(parseU(rest[0]))
		rest = rest[1:]
		for i := 0; i < n; i++ {
			e.shares = append(e.shares, shareEnt{spk: parseU(rest[0]), ok: rest[1] == "1"})
			rest = rest[2:]
		}
		for i := range e.shares {
			if e.shares[i].ok {
				e.shares[i].kind = "ok"
			} else {
				e.shares[i].kind = "na"
			}
		}
		e.sigKind = "rand"
		for _, t := range rest {
			if strings.HasPrefix(t, "k=") {
				for i, k := range strings.Split(t[2:], ",") {
					if i < len(e.shares) && k != "" && (k == "ok") == e.shares[i].ok {
						e.shares[i].kind = k
					}
				}
			}
			if strings.HasPrefix(t, "sg=") && t[3:] != "" {
				e.sigKind = t[3:]
			}
		}
	case "VR":
		e.owner, e.v = parseU(w[1]), parseU(w[2])
		e.ops, _ = parseList(w[3:])
	case "VX":
		e.owner, e.v, e.blk = parseU(w[1]), parseU(w[2]), parseU(w[3])
		e.ops, _ = parseList(w[4:])
	case "CL", "CR":
		e.owner = parseU(w[1])
		e.ops, _ = parseList(w[2:])
	case "FR":
		e.owner, e.fee = parseU(w[1]), parseU(w[2])
	case "XX":
		e.xx = "topic"
		if len(w) > 1 {
			e.xx = w[1]
		}
	}
	return e
}

// ---- bytes ------------------------------------------------------------------------------------------

func (p *pool) signature(v, owner, nonce uint64) []byte {
	key := fmt.Sprintf("%d/%d/%d", v, owner, nonce)
	p.mu.Lock()
	defer p.mu.Unlock()
	if s, ok := p.sigCache[key]; ok {
		return s
	}
	vk := p.vals[v]
	if vk == nil {
		return nil
	}
	data := fmt.Sprintf("%s:%d", addr(owner).String(), nonce)
	hash := crypto.Keccak256([]byte(data))
	s := vk.msk.SignByte(hash).Serialize()
	p.sigCache[key] = s
	return s
}

func (p *pool) encKey(spk uint64, kind string, salt uint64) []byte {
	key := fmt.Sprintf("%d/%s", spk, kind)
	if kind == "na" || kind == "garb" {
		key += fmt.Sprintf("/%d", salt)
	}
	p.mu.Lock()
	defer p.mu.Unlock()
	if b, ok := p.encCache[key]; ok {
		return b
	}
	sk, _ := spkKeys(spk)
	var out []byte
	var err error
	switch kind {
	case "ok":
		out, err = p.own.Public().Encrypt([]byte(sk.SerializeToHexStr()))
	case "rsa":
		out, err = p.other.Public().Encrypt([]byte(sk.SerializeToHexStr()))
	case "mism":
		other, _ := spkKeys(spkID((spk-1)/16, int((spk-1)%16+1)%maxPos))
		out, err = p.own.Public().Encrypt([]byte(other.SerializeToHexStr()))
	case "nothex":
		out, err = p.own.Public().Encrypt([]byte("this-is-not-a-hex-encoded-bls-secret-key"))
	default: // na, garb: 256 arbitrary bytes
		out = make([]byte, 256)
		_, err = rand.Read(out)
		out[0] |= 0x80
	}
	if err != nil || len(out) != 256 {
		panic(fmt.Sprintf("encKey %s: %v len=%d", kind, err, len(out)))
	}
	p.encCache[key] = out
	return out
}

// sharesData builds ContractValidatorAdded.Shares from the abstract description.
func (p *pool) sharesData(e *absEvent) []byte {
	var sig []byte
	if e.sig != nil {
		sig = p.signature(e.sig[0], e.sig[1], e.sig[2])
	}
	if sig == nil {
		sig = make([]byte, 96)
		if e.sigKind == "other" { // a well-formed signature of an unrelated message
			sk, _ := spkKeys(spkID(1, 0))
			copy(sig, sk.SignByte([]byte("unrelated")).Serialize())
		} else {
			for i := range sig {
				sig[i] = byte(37*i + 11)
			}
		}
	}
	out := append([]byte{}, sig...)
	for _, s := range e.shares {
		_, pub := spkKeys(s.spk)
		out = append(out, pub...)
	}
	for i, s := range e.shares {
		out = append(out, p.encKey(s.spk, s.kind, uint64(i))...)
	}
	want := int(e.length)
	for len(out) < want {
		out = append(out, 0)
	}
	return out[:want]
}

func topicAddr(a ethcommon.Address) ethcommon.Hash { return ethcommon.BytesToHash(a.Bytes()) }
func topicU64(x uint64) ethcommon.Hash             { return ethcommon.BigToHash(new(big.Int).SetUint64(x)) }

var cluster = contract.ISSVNetworkCoreCluster{ValidatorCount: 1, NetworkFeeIndex: 1, Index: 1, Active: true, Balance: big.NewInt(100)}

// toLog builds the ABI-packed log the execution client would deliver.
func (p *pool) toLog(e *absEvent, blockNumber uint64, index uint) ethtypes.Log {
	lg := ethtypes.Log{BlockNumber: blockNumber, Index: index, TxHash: ethcommon.BigToHash(new(big.Int).SetUint64(blockNumber*1000 + uint64(index)))}
	pack := func(name string, args ...interface{}) []byte {
		data, err := p.abi.Events[name].Inputs.NonIndexed().Pack(args...)
		if err != nil {
			panic(fmt.Sprintf("pack %s: %v", name, err))
		}
		return data
	}
	id := func(name string) ethcommon.Hash { return p.abi.Events[name].ID }
	switch e.kind {
	case "OA":
		packed, err := eventparser.PackOperatorPublicKey(opPk(e.pk))
		if err != nil {
			panic(err)
		}
		lg.Topics = []ethcommon.Hash{id("OperatorAdded"), topicU64(e.id), topicAddr(addr(e.owner))}
		lg.Data = pack("OperatorAdded", packed, big.NewInt(0))
	case "OR":
		lg.Topics = []ethcommon.Hash{id("OperatorRemoved"), topicU64(e.id)}
	case "VA":
		lg.Topics = []ethcommon.Hash{id("ValidatorAdded"), topicAddr(addr(e.owner))}
		lg.Data = pack("ValidatorAdded", e.ops, valPub(e.v), p.sharesData(e), cluster)
	case "VR":
		lg.Topics = []ethcommon.Hash{id("ValidatorRemoved"), topicAddr(addr(e.owner))}
		lg.Data = pack("ValidatorRemoved", e.ops, valPub(e.v), cluster)
	case "VX":
		lg.Topics = []ethcommon.Hash{id("ValidatorExited"), topicAddr(addr(e.owner))}
		lg.Data = pack("ValidatorExited", e.ops, valPub(e.v))
		lg.BlockNumber = e.blk
	case "CL":
		lg.Topics = []ethcommon.Hash{id("ClusterLiquidated"), topicAddr(addr(e.owner))}
		lg.Data = pack("ClusterLiquidated", e.ops, cluster)
	case "CR":
		lg.Topics = []ethcommon.Hash{id("ClusterReactivated"), topicAddr(addr(e.owner))}
		lg.Data = pack("ClusterReactivated", e.ops, cluster)
	case "FR":
		lg.Topics = []ethcommon.Hash{id("FeeRecipientAddressUpdated"), topicAddr(addr(e.owner))}
		lg.Data = pack("FeeRecipientAddressUpdated", addr(e.fee))
	default: // XX: logs the parser must reject (or an unknown event)
		switch e.xx {
		case "trunc": // a ValidatorAdded whose data is cut in the middle of the dynamic part
			lg.Topics = []ethcommon.Hash{id("ValidatorAdded"), topicAddr(addr(1))}
			d := pack("ValidatorAdded", []uint64{1, 2, 3, 4}, valPub(1), make([]byte, 100), cluster)
			lg.Data = d[:len(d)-70]
		case "notopic": // the indexed owner is missing
			lg.Topics = []ethcommon.Hash{id("ValidatorRemoved")}
			lg.Data = pack("ValidatorRemoved", []uint64{1, 2, 3, 4}, valPub(1), cluster)
		case "oapk": // OperatorAdded whose public key field is not ABI-packed
			lg.Topics = []ethcommon.Hash{id("OperatorAdded"), topicU64(77), topicAddr(addr(1))}
			lg.Data = pack("OperatorAdded", []byte("raw-not-packed"), big.NewInt(0))
		default: // unknown topic
			lg.Topics = []ethcommon.Hash{ethcommon.HexToHash("0x" + hex.EncodeToString(crypto.Keccak256([]byte("NotAnEvent(uint256)"))))}
			lg.Data = make([]byte, 32)
		}
	}
	return lg
}
