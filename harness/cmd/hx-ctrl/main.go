// hx-ctrl drives the real QBFT controller, the real attester duty runner and the real ibft/storage
// (in-memory badger) through histories of duty starts, decided messages, local decisions and
// restarts (C15).
//
//	hx-ctrl gen -seed S -n N          random structured histories (full and light nodes, 4 and 7 operators)
//	hx-ctrl exhaustive -len L         every sequence of L operations from a 14-letter alphabet, full and light
//	hx-ctrl replay FILE               re-run the operation lines of a corpus / replay file
//
// Operation lines (read back by ocaml/ctrl/run.ml):
//
//	NEW <full 0|1> <fixed 0|1> <quorum> <n>
//	START <slot>
//	DECIDED <height> <round> <kind> <k> <signer>*k <valid 0|1> <looks 0|1>
//	DECIDEDWF ...                 the same message while the database refuses every write
//	DECIDEDW1 ...                 the same message while the database refuses only the first write (the model: as DECIDED)
//	LOCAL <height> <k> <signer>*k
//	RESTART
//
// valid / looks are computed here with the real BaseMsgValidation identifier test, IsDecidedMsg and
// ValidateDecided (real BLS verification); when a file is replayed they are recomputed.
package main

import (
	"bufio"
	"bytes"
	"context"
	"flag"
	"fmt"
	"os"
	"reflect"
	"sort"
	"strconv"
	"strings"

	"github.com/attestantio/go-eth2-client/spec"
	"github.com/attestantio/go-eth2-client/spec/phase0"
	specqbft "github.com/bloxapp/ssv-spec/qbft"
	specssv "github.com/bloxapp/ssv-spec/ssv"
	spectypes "github.com/bloxapp/ssv-spec/types"
	"github.com/bloxapp/ssv-spec/types/testingutils"
	"github.com/herumi/bls-eth-go-binary/bls"
	"go.uber.org/zap"

	ibftstorage "github.com/bloxapp/ssv/ibft/storage"
	"github.com/bloxapp/ssv/protocol/v2/qbft"
	"github.com/bloxapp/ssv/protocol/v2/qbft/controller"
	"github.com/bloxapp/ssv/protocol/v2/qbft/roundtimer"
	qbftstorage "github.com/bloxapp/ssv/protocol/v2/qbft/storage"
	"github.com/bloxapp/ssv/protocol/v2/ssv/runner"
	"github.com/bloxapp/ssv/storage/basedb"
	"github.com/bloxapp/ssv/storage/kv"

	"verifharness/hx"
)

var (
	logger = zap.NewNop()
	db     *refusingDB
	dbSeq  int
	// the tree carries work/fix-C15.diff iff the controller has the highestSaved field
	fixedTree = func() bool {
		_, ok := reflect.TypeOf(controller.Controller{}).FieldByName("highestSaved")
		return ok
	}()
)

// ---- abstract operations -----------------------------------------------------------------------------

type opKind int

const (
	opStart opKind = iota
	opDecided
	opLocal
	opRestart
)

type op struct {
	kind    opKind
	h, r    uint64
	variant string // ok | badsig | badroot | badid | unknown | subq | dup
	signers []uint64
	refused bool // the database refuses every write while the message is processed
	once    bool // the database refuses only the FIRST write (a transient failure; whatever is written again succeeds)
}

// refusingDB makes the one in-memory badger refuse writes on demand (Set / SetMany / Delete return an
// error and store nothing); reads keep working.
type refusingDB struct {
	basedb.Database
	refuse  bool
	once    int // refuse this many further writes, then accept again
	refused int
}

func (d *refusingDB) refuses() bool {
	if d.refuse {
		return true
	}
	if d.once > 0 {
		d.once--
		return true
	}
	return false
}

var errRefused = fmt.Errorf("injected write failure")

func (d *refusingDB) Set(prefix, key, value []byte) error {
	if d.refuses() {
		d.refused++
		return errRefused
	}
	return d.Database.Set(prefix, key, value)
}

func (d *refusingDB) SetMany(prefix []byte, n int, next func(int) (basedb.Obj, error)) error {
	if d.refuses() {
		d.refused++
		return errRefused
	}
	return d.Database.SetMany(prefix, n, next)
}

func (d *refusingDB) Delete(prefix, key []byte) error {
	if d.refuses() {
		d.refused++
		return errRefused
	}
	return d.Database.Delete(prefix, key)
}

func (d *refusingDB) Using(rw basedb.ReadWriter) basedb.ReadWriter {
	if rw == nil {
		return d
	}
	return rw
}

// ---- the world: one validator, one attester runner, one store ----------------------------------------

type certObs struct {
	ok      bool
	h, r    uint64
	signers []uint64
}

func (c certObs) String() string {
	if !c.ok {
		return "-"
	}
	s := make([]string, len(c.signers))
	for i, x := range c.signers {
		s[i] = strconv.FormatUint(x, 10)
	}
	return fmt.Sprintf("%d/%d/%s", c.h, c.r, strings.Join(s, "."))
}

type world struct {
	out   *hx.Out
	full  bool
	n     int
	ks    *testingutils.TestKeySet
	share *spectypes.Share
	id    spectypes.MessageID
	store qbftstorage.QBFTStore
	ctrl  *controller.Controller
	run   runner.Runner

	// property monitor (implementation observables only)
	life       map[uint64]string // heights started or learned decided in this process life
	loaded     certObs           // what the process loaded when it started
	validRound map[uint64]map[uint64]bool
	unsaved    map[uint64]bool // heights whose decision was processed while the database refused writes
}

func keySet(n int) *testingutils.TestKeySet {
	switch n {
	case 7:
		return testingutils.Testing7SharesSet()
	case 10:
		return testingutils.Testing10SharesSet()
	case 13:
		return testingutils.Testing13SharesSet()
	}
	return testingutils.Testing4SharesSet()
}

func newWorld(out *hx.Out, full bool, n int) *world {
	if db == nil {
		d, err := kv.NewInMemory(logger, basedb.Options{Ctx: context.Background()})
		if err != nil {
			panic(err)
		}
		db = &refusingDB{Database: d}
	}
	dbSeq++
	w := &world{out: out, full: full, n: n, ks: keySet(n)}
	w.share = testingutils.TestingShare(w.ks)
	w.id = spectypes.NewMsgID(testingutils.TestingSSVDomainType, testingutils.TestingValidatorPubKey[:], spectypes.BNRoleAttester)
	// a fresh key space of the one in-memory badger per case
	w.store = ibftstorage.New(db, fmt.Sprintf("c%d-%s", dbSeq, spectypes.BNRoleAttester.String()))
	w.validRound = map[uint64]map[uint64]bool{}
	w.unsaved = map[uint64]bool{}
	w.boot()
	w.life = map[uint64]string{}
	f, x := 0, 0
	if full {
		f = 1
	}
	if fixedTree {
		x = 1
	}
	out.Op("NEW", "%d %d %d %d", f, x, w.share.Quorum, n)
	return w
}

// boot = what a process start constructs: NewController and the duty runner around it.
func (w *world) boot() {
	km := testingutils.NewTestingKeyManager()
	net := testingutils.NewTestingNetwork()
	valCheck := specssv.AttesterValueCheckF(km, spectypes.BeaconTestNetwork, testingutils.TestingValidatorPubKey[:],
		testingutils.TestingValidatorIndex, w.share.SharePubKey)
	cfg := &qbft.Config{
		Signer:      km,
		SigningPK:   w.ks.Shares[1].GetPublicKey().Serialize(),
		Domain:      testingutils.TestingSSVDomainType,
		ValueCheckF: valCheck,
		ProposerF: func(state *specqbft.State, round specqbft.Round) spectypes.OperatorID {
			return 1
		},
		Storage:               w.store,
		Network:               net,
		Timer:                 roundtimer.NewTestingTimer(),
		SignatureVerification: true,
	}
	w.ctrl = controller.NewController(w.id[:], w.share, cfg, w.full)
	w.run = runner.NewAttesterRunnner(spectypes.BeaconTestNetwork, w.share, w.ctrl, testingutils.NewTestingBeaconNode(),
		net, km, valCheck, 0)
}

// ---- concrete messages -----------------------------------------------------------------------------

func duty(slot uint64) *spectypes.Duty {
	d := testingutils.TestingAttesterDuty
	d.Slot = phase0.Slot(slot)
	return &d
}

var fullDataCache = map[uint64][]byte{}

// the value every operator proposes for a slot: what AttesterRunner.executeDuty builds
func fullData(slot uint64) []byte {
	if b, ok := fullDataCache[slot]; ok {
		return b
	}
	att := *testingutils.TestingAttestationData
	att.Slot = phase0.Slot(slot)
	attb, err := att.MarshalSSZ()
	if err != nil {
		panic(err)
	}
	cd := &spectypes.ConsensusData{Duty: *duty(slot), Version: spec.DataVersionPhase0, DataSSZ: attb}
	b, err := cd.Encode()
	if err != nil {
		panic(err)
	}
	fullDataCache[slot] = b
	return b
}

type sigKey struct {
	n          int
	typ        specqbft.MessageType
	h, r       uint64
	signer, sk uint64
	otherID    bool
}

var sigCache = map[sigKey]*specqbft.SignedMessage{}

func (w *world) ident(other bool) []byte {
	if other {
		id := spectypes.NewMsgID(testingutils.TestingSSVDomainType, testingutils.TestingValidatorPubKey[:], spectypes.BNRoleProposer)
		return id[:]
	}
	return w.id[:]
}

// one signature of operator `signer` made with the key of operator `sk`
func (w *world) single(typ specqbft.MessageType, h, r, signer, sk uint64, otherID bool) *specqbft.SignedMessage {
	k := sigKey{w.n, typ, h, r, signer, sk, otherID}
	if m, ok := sigCache[k]; ok {
		return m.DeepCopy()
	}
	root, err := specqbft.HashDataRoot(fullData(h))
	if err != nil {
		panic(err)
	}
	msg := &specqbft.Message{MsgType: typ, Height: specqbft.Height(h), Round: specqbft.Round(r),
		Identifier: w.ident(otherID), Root: root}
	key, ok := w.ks.Shares[spectypes.OperatorID(sk)]
	if !ok {
		key = w.ks.Shares[1]
	}
	m := testingutils.SignQBFTMsg(key, spectypes.OperatorID(signer), msg)
	sigCache[k] = m
	return m.DeepCopy()
}

func (w *world) aggregate(typ specqbft.MessageType, h, r uint64, signers []uint64, keyOf func(uint64) uint64, otherID bool) *specqbft.SignedMessage {
	var agg *specqbft.SignedMessage
	for _, s := range signers {
		m := w.single(typ, h, r, s, keyOf(s), otherID)
		if agg == nil {
			agg = m
			continue
		}
		// SignedMessage.Aggregate refuses duplicate signers; the "dup" variant needs them
		sig := bls.Sign{}
		if err := sig.Deserialize(agg.Signature); err != nil {
			panic(err)
		}
		sig2 := bls.Sign{}
		if err := sig2.Deserialize(m.Signature); err != nil {
			panic(err)
		}
		sig.Add(&sig2)
		agg.Signature = sig.Serialize()
		agg.Signers = append(agg.Signers, m.Signers...)
	}
	agg.FullData = fullData(h)
	return agg
}

func (w *world) decidedMsg(o op) *specqbft.SignedMessage {
	own := func(s uint64) uint64 { return s }
	switch o.variant {
	case "badsig", "subq":
		// every signature is made with the next operator's key
		return w.aggregate(specqbft.CommitMsgType, o.h, o.r, o.signers, func(s uint64) uint64 { return s%uint64(w.n) + 1 }, false)
	case "badroot":
		m := w.aggregate(specqbft.CommitMsgType, o.h, o.r, o.signers, own, false)
		m.FullData = fullData(o.h + 1000)
		return m
	case "badid":
		return w.aggregate(specqbft.CommitMsgType, o.h, o.r, o.signers, own, true)
	}
	// ok, unknown (a signer outside the committee), dup (a signer listed twice)
	return w.aggregate(specqbft.CommitMsgType, o.h, o.r, o.signers, own, false)
}

// ---- observation --------------------------------------------------------------------------------------

func certOf(si *qbftstorage.StoredInstance) certObs {
	if si == nil || si.DecidedMessage == nil || si.State == nil {
		return certObs{}
	}
	c := certObs{ok: true, h: uint64(si.State.Height), r: uint64(si.DecidedMessage.Message.Round)}
	for _, s := range si.DecidedMessage.Signers {
		c.signers = append(c.signers, uint64(s))
	}
	sort.Slice(c.signers, func(i, j int) bool { return c.signers[i] < c.signers[j] })
	return c
}

func (w *world) highest() certObs {
	si, err := w.store.GetHighestInstance(w.id[:])
	if err != nil {
		panic(err)
	}
	return certOf(si)
}

func (w *world) historical(h uint64) string {
	si, err := w.store.GetInstance(w.id[:], specqbft.Height(h))
	if err != nil {
		panic(err)
	}
	c := certOf(si)
	if !c.ok {
		return "-"
	}
	return c.String()
}

func (w *world) instances() string {
	var parts []string
	for _, i := range w.ctrl.StoredInstances {
		fl := ""
		if i.State.Decided {
			fl += "d"
		}
		if i.StartValue != nil {
			fl += "s"
		}
		if !i.CanProcessMessages() {
			fl += "x"
		}
		if fl == "" {
			fl = "-"
		}
		parts = append(parts, fmt.Sprintf("%d:%d:%s:%d", i.State.Height, i.State.Round, fl, len(i.State.CommitContainer.AllMessaged())))
	}
	if len(parts) == 0 {
		return "-"
	}
	return strings.Join(parts, ",")
}

func (w *world) obs(res string, hist string) {
	w.out.Obs("%s H=%d I=%s hi=%s hs=%s", res, uint64(w.ctrl.Height), w.instances(), w.highest(), hist)
}

// ---- the property monitor: the three clauses of C15 on what the implementation shows -------------------

// clause (c): the stored highest instance is only replaced by a higher height or, at the same
// height, by strictly more signers.
func (w *world) checkStore(before certObs, what string) {
	after := w.highest()
	if !before.ok {
		return
	}
	if !after.ok {
		w.out.ViolF("c15c store-lost op=%s old=%s new=-", what, before)
		return
	}
	if before.String() == after.String() {
		return
	}
	if after.h > before.h || (after.h == before.h && len(after.signers) > len(before.signers)) {
		return
	}
	w.out.ViolF("c15c store-not-monotone op=%s old=%s new=%s", what, before, after)
}

// clause (a): a successful start is for a slot above everything started or learned decided in this
// life and above what the process loaded.  Slot 0 while the controller height is 0 is the coded
// exception (ShouldProcessDuty lets it pass; only an existing instance refuses it).
func (w *world) checkStart(slot uint64) {
	for h, how := range w.life {
		if h >= slot && slot != 0 {
			w.out.ViolF("c15a rerun slot=%d known=%d (%s)", slot, h, how)
			return
		}
		if h >= slot {
			w.out.Note("height-0 exception: slot 0 started although height 0 was %s", how)
		}
	}
	// clause (b), second half: nothing at or below the loaded highest decided height starts again
	if w.loaded.ok && slot <= w.loaded.h {
		w.out.ViolF("c15b rerun-after-restart slot=%d loaded=%s", slot, w.loaded)
	}
}

// ---- operations ----------------------------------------------------------------------------------------

func (w *world) start(slot uint64) {
	w.out.Op("START", "%d", slot)
	before := w.highest()
	err := w.run.StartNewDuty(logger, duty(slot))
	res := "start-ok"
	switch {
	case err == nil:
		w.checkStart(slot)
		w.life[slot] = "started"
	case strings.Contains(err.Error(), "already passed"):
		res = "start-passed"
	case strings.Contains(err.Error(), "past height"):
		res = "start-past"
	case strings.Contains(err.Error(), "instance already running"):
		res = "start-exists"
	default:
		res = "start-other:" + strings.ReplaceAll(err.Error(), " ", "_")
	}
	w.checkStore(before, "start")
	w.obs(res, "-")
}

func ids(signers []uint64) string {
	s := fmt.Sprintf("%d", len(signers))
	for _, x := range signers {
		s += fmt.Sprintf(" %d", x)
	}
	return s
}

func (w *world) decided(o op) {
	msg := w.decidedMsg(o)
	looks := controller.IsDecidedMsg(w.share, msg)
	valid := looks && bytes.Equal(msg.Message.Identifier, w.id[:]) &&
		controller.ValidateDecided(w.ctrl.GetConfig(), msg, w.share) == nil
	name := "DECIDED"
	if o.refused {
		name = "DECIDEDWF"
	}
	if o.once {
		name = "DECIDEDW1"
	}
	w.out.Op(name, "%d %d %s %s %d %d", o.h, o.r, o.variant, ids(o.signers), b2i(valid), b2i(looks))
	w.out.Count("decided-" + o.variant)
	if o.refused {
		w.out.Count("decided-while-writes-refused")
	}
	before := w.highest()
	heightBefore := uint64(w.ctrl.Height)
	held := w.ctrl.StoredInstances.FindInstance(specqbft.Height(o.h)) != nil
	recorded := w.historical(o.h) != "-"
	// the runner saves the decided message of its RUNNING, not yet decided instance a second time after the controller
	// did (baseConsensusMsgProcessing): a transient failure of the first write must then not lose the record
	retried := false
	if st := w.run.GetBaseRunner().State; st != nil && st.RunningInstance != nil && uint64(st.RunningInstance.GetHeight()) == o.h {
		if dec, _ := st.RunningInstance.IsDecided(); !dec {
			retried = true
		}
	}
	db.refuse, db.refused, db.once = o.refused, 0, b2i(o.once)
	err := w.run.ProcessConsensus(logger, msg)
	db.refuse, db.once = false, 0
	if o.once {
		w.out.Count(fmt.Sprintf("decided-first-write-refused-writes-refused-%d", db.refused))
	}
	res := "dec-ok"
	switch {
	case err == nil && !valid:
		res = "dec-accepted-invalid"
	case err == nil:
	case strings.Contains(err.Error(), "decided wrong instance"):
		res = "dec-wrong"
	case !valid:
		res = "dec-rej"
	default:
		res = "dec-other:" + strings.ReplaceAll(err.Error(), " ", "_")
	}
	if valid {
		if w.life[o.h] == "" {
			w.life[o.h] = "decided"
		}
		if w.validRound[o.h] == nil {
			w.validRound[o.h] = map[uint64]bool{}
		}
		w.validRound[o.h][o.r] = true
	}
	w.checkStore(before, "decided")
	if valid && (o.refused || (o.once && !retried)) {
		w.unsaved[o.h] = true
	}
	if o.once {
		w.out.Count(fmt.Sprintf("decided-first-write-refused-saved-again-by-the-runner-%v", retried))
	}
	if valid && !o.refused {
		w.checkPersisted(o.h, heightBefore, held, recorded, "decided")
	}
	if o.refused && w.highest().String() != before.String() {
		w.out.ViolF("c15c the store changed although every write was refused: %s -> %s", before, w.highest())
	}
	w.obs(res, w.historical(o.h))
}

// clause (b), what "survives a restart" needs: a height learned decided that is not below the
// controller height is in the highest record afterwards (or a higher one is).  Two coded exceptions:
// height 0 (a refused second start of slot 0 clears the runner's running instance, so its local
// decision is not saved), and a full node that finds only a historical record of that height
// (InstanceForHeight returns a throw-away instance; UponDecided then saves nothing).
func (w *world) checkPersisted(h, heightBefore uint64, held, recorded bool, what string) {
	if h < heightBefore {
		return
	}
	hi := w.highest()
	if hi.ok && hi.h >= h {
		return
	}
	switch {
	case w.unsaved[h]:
		// outside the property's quantifier: the instance is already decided in memory, so an equal
		// certificate is not written again
		w.out.Note("height %d was decided while the database refused writes; not stored (%s); stored=%s", h, what, hi)
	case h == 0:
		w.out.Note("height-0 exception: height 0 decided (%s) but not stored; stored=%s", what, hi)
	case w.full && !held && recorded:
		w.out.Note("full-node exception: height %d decided (%s) again, found only as a historical record, not stored as highest; stored=%s", h, what, hi)
	default:
		w.out.ViolF("c15b not-persisted op=%s h=%d height-before=%d stored=%s", what, h, heightBefore, hi)
	}
}

func b2i(b bool) int {
	if b {
		return 1
	}
	return 0
}

// local: proposal, prepare quorum and the listed commits (one signer each, round 1) for the running
// instance of height h, through the runner, provided that instance is fresh.
func (w *world) local(h uint64, signers []uint64) {
	w.out.Op("LOCAL", "%d %s", h, ids(signers))
	before := w.highest()
	inst := w.ctrl.StoredInstances.FindInstance(specqbft.Height(h))
	ready := inst != nil && inst.StartValue != nil && inst.CanProcessMessages() && !inst.State.Decided &&
		inst.State.Round == specqbft.FirstRound && len(inst.State.CommitContainer.AllMessaged()) == 0
	if !ready {
		w.checkStore(before, "local")
		w.obs("local-skip", w.historical(h))
		return
	}
	feed := func(m *specqbft.SignedMessage) {
		_ = w.run.ProcessConsensus(logger, m)
	}
	p := w.single(specqbft.ProposalMsgType, h, 1, 1, 1, false)
	p.FullData = fullData(h)
	feed(p)
	for s := uint64(1); s <= w.share.Quorum; s++ {
		feed(w.single(specqbft.PrepareMsgType, h, 1, s, s, false))
	}
	for _, s := range signers {
		feed(w.single(specqbft.CommitMsgType, h, 1, s, s, false))
	}
	dec := inst.State.Decided
	if dec {
		w.checkPersisted(h, uint64(w.ctrl.Height), true, false, "local")
		if w.life[h] == "" || w.life[h] == "started" {
			w.life[h] = "decided locally"
		}
		if w.validRound[h] == nil {
			w.validRound[h] = map[uint64]bool{}
		}
		w.validRound[h][1] = true
	}
	w.checkStore(before, "local")
	w.obs(fmt.Sprintf("local-done %d", b2i(dec)), w.historical(h))
}

// restart: a new process over the same database: NewController + what Validator.Start does.
func (w *world) restart() {
	w.out.Op("RESTART", "")
	before := w.highest()
	w.boot()
	hi, err := w.ctrl.LoadHighestInstance(w.id[:])
	if err != nil {
		panic(err)
	}
	if hi != nil {
		cd := &spectypes.ConsensusData{}
		if err := cd.Decode(hi.State.DecidedValue); err == nil {
			w.run.GetBaseRunner().SetHighestDecidedSlot(cd.Duty.Slot)
		}
	}
	w.life = map[uint64]string{}
	w.loaded = before
	if before.ok {
		w.life[before.h] = "loaded as highest decided"
	}
	// clause (b), first half: the process resumes with the stored highest decided height
	want := uint64(0)
	if before.ok {
		want = before.h
	}
	if uint64(w.ctrl.Height) != want {
		w.out.ViolF("c15b restart-height height=%d stored=%s", uint64(w.ctrl.Height), before)
	}
	w.checkStore(before, "restart")
	w.obs("restarted", "-")
}

func (w *world) apply(o op) {
	switch o.kind {
	case opStart:
		w.start(o.h)
	case opDecided:
		w.decided(o)
	case opLocal:
		w.local(o.h, o.signers)
	case opRestart:
		w.restart()
	}
}

// ---- generators ----------------------------------------------------------------------------------------

func subset(r *hx.Rand, n, k int) []uint64 {
	p := make([]uint64, n)
	for i := range p {
		p[i] = uint64(i + 1)
	}
	for i := n - 1; i > 0; i-- {
		j := r.Intn(i + 1)
		p[i], p[j] = p[j], p[i]
	}
	return p[:k]
}

func sorted(s []uint64) []uint64 {
	c := append([]uint64(nil), s...)
	sort.Slice(c, func(i, j int) bool { return c[i] < c[j] })
	return c
}

func gen(out *hx.Out, seed uint64, n int) {
	for c := 0; c < n; c++ {
		r := hx.NewRand(seed, "ctrl-gen", uint64(c))
		full := r.Chance(1, 2)
		size := 4
		if r.Chance(1, 6) {
			size = 7
		}
		out.Case("gen seed=%d case=%d", seed, c)
		w := newWorld(out, full, size)
		q := int(w.share.Quorum)
		cur := uint64(0) // rough mirror of the controller height, only used to aim the choices
		if r.Chance(2, 3) {
			cur = uint64(r.Intn(6))
		}
		lastStart := cur
		nops := 4 + r.Intn(12)
		for k := 0; k < nops; k++ {
			pickH := func() uint64 {
				switch x := r.Intn(20); {
				case x < 8:
					return cur
				case x < 13:
					return cur + 1 + uint64(r.Intn(3))
				case x < 18:
					d := uint64(1 + r.Intn(3))
					if d > cur {
						return 0
					}
					return cur - d
				default:
					return 0
				}
			}
			switch x := r.Intn(100); {
			case x < 28:
				s := pickH()
				w.apply(op{kind: opStart, h: s})
				if s > cur {
					cur = s
				}
				lastStart = s
			case x < 72:
				o := op{kind: opDecided, h: pickH(), r: uint64(hx.Pick(r, 1, 1, 1, 2, 2, 3)), variant: "ok"}
				k := q
				if r.Chance(1, 2) {
					k = q + r.Intn(size-q+1)
				}
				o.signers = sorted(subset(r, size, k))
				switch y := r.Intn(100); {
				case y < 4:
					o.variant = "badsig"
				case y < 7:
					o.variant = "badroot"
				case y < 10:
					o.variant = "badid"
				case y < 12:
					o.variant = "unknown"
					o.signers[len(o.signers)-1] = uint64(size + 1)
				case y < 14:
					o.variant = "subq"
					o.signers = o.signers[:q-1]
				case y < 16:
					o.variant = "dup"
					o.signers[len(o.signers)-1] = o.signers[0]
				}
				o.refused = r.Chance(1, 8)
				o.once = !o.refused && r.Chance(1, 7)
				w.apply(o)
				if o.variant == "ok" && o.h > cur {
					cur = o.h
				}
			case x < 88:
				h := lastStart
				if r.Chance(1, 5) {
					h = pickH()
				}
				k := q
				switch y := r.Intn(10); {
				case y < 2:
					k = r.Intn(q)
				case y < 5:
					k = q + r.Intn(size-q+1)
				}
				w.apply(op{kind: opLocal, h: h, signers: subset(r, size, k)})
			default:
				w.apply(op{kind: opRestart})
				cur = 0
				if hi := w.highest(); hi.ok {
					cur = hi.h
				}
				lastStart = cur
			}
		}
		out.End()
	}
}

// exhaustive: every sequence of `length` letters, on a full and on a light node.
func alphabet() []op {
	a3, a4 := []uint64{1, 2, 3}, []uint64{1, 2, 3, 4}
	return []op{
		{kind: opStart, h: 0}, {kind: opStart, h: 1}, {kind: opStart, h: 2},
		{kind: opDecided, h: 1, r: 1, variant: "ok", signers: a3},
		{kind: opDecided, h: 1, r: 1, variant: "ok", signers: a4},
		{kind: opDecided, h: 1, r: 2, variant: "ok", signers: a3},
		{kind: opDecided, h: 1, r: 2, variant: "ok", signers: []uint64{2, 3, 4}},
		{kind: opDecided, h: 2, r: 1, variant: "ok", signers: a3},
		{kind: opDecided, h: 0, r: 1, variant: "ok", signers: a3},
		{kind: opDecided, h: 1, r: 3, variant: "badsig", signers: a4},
		{kind: opLocal, h: 1, signers: []uint64{3, 1, 2}},
		{kind: opLocal, h: 2, signers: []uint64{2, 3, 4, 1}},
		{kind: opLocal, h: 0, signers: a3},
		{kind: opRestart},
	}
}

func exhaustive(out *hx.Out, length int, part, parts int) {
	al := alphabet()
	total := 1
	for i := 0; i < length; i++ {
		total *= len(al)
	}
	for idx := 0; idx < total; idx++ {
		if idx%parts != part {
			continue
		}
		for _, full := range []bool{false, true} {
			out.Case("exhaustive len=%d idx=%d full=%v", length, idx, full)
			w := newWorld(out, full, 4)
			x := idx
			for i := 0; i < length; i++ {
				w.apply(al[x%len(al)])
				x /= len(al)
			}
			out.End()
		}
	}
}

// ---- replay ------------------------------------------------------------------------------------------------

func u(s string) uint64 { v, _ := strconv.ParseUint(s, 10, 64); return v }

func parseIDs(w []string) ([]uint64, []string) {
	k := int(u(w[0]))
	var s []uint64
	for i := 0; i < k; i++ {
		s = append(s, u(w[1+i]))
	}
	return s, w[1+k:]
}

func replay(out *hx.Out, path string) {
	fh, err := os.Open(path)
	if err != nil {
		fmt.Fprintln(os.Stderr, err)
		os.Exit(2)
	}
	defer fh.Close()
	var w *world
	sc := bufio.NewScanner(fh)
	sc.Buffer(make([]byte, 1<<20), 1<<20)
	for sc.Scan() {
		f := strings.Fields(sc.Text())
		if len(f) == 0 {
			continue
		}
		switch f[0] {
		case "CASE":
			out.Case("replay %s", strings.Join(f[2:], " "))
			w = nil
		case "END":
			out.End()
		case "NEW":
			w = newWorld(out, f[1] == "1", int(u(f[4])))
		}
		if w == nil {
			continue
		}
		switch f[0] {
		case "START":
			w.start(u(f[1]))
		case "DECIDED", "DECIDEDWF", "DECIDEDW1":
			s, _ := parseIDs(f[4:])
			w.decided(op{kind: opDecided, h: u(f[1]), r: u(f[2]), variant: f[3], signers: s, refused: f[0] == "DECIDEDWF", once: f[0] == "DECIDEDW1"})
		case "LOCAL":
			s, _ := parseIDs(f[2:])
			w.local(u(f[1]), s)
		case "RESTART":
			w.restart()
		}
	}
}

func main() {
	if len(os.Args) < 2 {
		fmt.Fprintln(os.Stderr, "usage: hx-ctrl gen|exhaustive|replay ...")
		os.Exit(2)
	}
	mode := os.Args[1]
	fs := flag.NewFlagSet(mode, flag.ExitOnError)
	seed := fs.Uint64("seed", 1, "seed")
	n := fs.Int("n", 100, "cases")
	length := fs.Int("len", 3, "sequence length (exhaustive)")
	part := fs.Int("part", 0, "this part (exhaustive)")
	parts := fs.Int("parts", 1, "number of parts (exhaustive)")
	_ = fs.Parse(os.Args[2:])
	out := hx.NewOut()
	defer out.Close()
	switch mode {
	case "gen":
		gen(out, *seed, *n)
	case "exhaustive":
		exhaustive(out, *length, *part, *parts)
	case "replay":
		replay(out, fs.Arg(0))
	default:
		fmt.Fprintln(os.Stderr, "unknown mode", mode)
		os.Exit(2)
	}
}
