package main

// The corpus mode writes the minimised histories of the findings (stored under corpus/):
//   f1: proposal with round 0, one signer, height divisible by the committee size (C08)
//   f8: consensus message whose height is the current slot + 2^62 (C09)
//   f9: a peer's node-info record whose subnets are shorter than ours (C08)

import (
	specqbft "github.com/bloxapp/ssv-spec/qbft"
	spectypes "github.com/bloxapp/ssv-spec/types"

	"verifharness/hx"
)

func runCorpus(out *hx.Out, which string) {
	u := newUniverse()
	r := hx.NewRand(1, "corpus", 0)
	sc := newScene(u, r)
	sc.val, sc.role, sc.signed, sc.p2p = u.vals[0], spectypes.BNRoleAttester, false, false
	sc.slot = baseEpoch * slotsInEpoch // divisible by 4
	switch which {
	case "f1":
		s := newSession(u, out, "C08")
		s.begin("prop=C08 corpus f1: proposal round 0, one signer, height %% committee size == 0")
		s.fresh()
		p := sc.proposal(1, false, sc.value)
		p.Message.Round = 0
		p.Signers = []spectypes.OperatorID{1}
		s.step(sc.consDraft(p).build())
		// the other operands that reach the same index expression
		p2 := sc.proposal(1, false, sc.value)
		p2.Message.Round = 1 << 63
		d2 := sc.consDraft(p2)
		setTime(d2, u, sc.slot, offsetNs(1))
		s.step(d2.build())
		p3 := sc.proposal(1, false, sc.value)
		p3.Message.Height = specqbft.Height(1<<63 + sc.slot)
		s.step(sc.consDraft(p3).build())
		out.End()
	case "f8":
		s := newSession(u, out, "C09")
		s.begin("prop=C09 corpus f8: height = current slot + 2^62 passes the slot window through uint64 wrap-around")
		s.fresh()
		d := sc.consDraft(sc.prepare(2, 1, sc.value))
		d.cons.Message.Height += 1 << 62
		s.step(d.build())
		s.out.Note("an honest message of the same signer afterwards")
		s.step(sc.consDraft(sc.commit(2, 1, sc.value)).build())
		out.End()
	case "f9":
		s := newSession(u, out, "C08")
		out.Case("prop=C08 corpus f9: SharedSubnets with a peer's subnets shorter than ours")
		bits := s.doSubnets("00")
		s.doShared(testSubnets(), bits, 1)
		out.Op("BYTES", "NodeInfo.UnmarshalRecord %s", encBytes([]byte(`{"Entries":["","0x00000302","{\"NodeVersion\":\"v\",\"ExecutionNode\":\"\",\"ConsensusNode\":\"\",\"Subnets\":\"00\"}"]}`)))
		for _, t := range decodeTargets(nil, testSubnets()) {
			if t.name == "NodeInfo.UnmarshalRecord" {
				if v := guarded(t.run, []byte(`{"Entries":["","0x00000302","{\"NodeVersion\":\"v\",\"ExecutionNode\":\"\",\"ConsensusNode\":\"\",\"Subnets\":\"00\"}"]}`)); v != "" {
					s.report("C08", "%s: %s", t.name, v)
				}
			}
		}
		out.End()
	default:
		panic("corpus f1|f8|f9")
	}
}
