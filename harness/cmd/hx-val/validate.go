package main

// The validate mode: cases = fresh validator, a prefix of honest messages, then the message under
// test (and, for mutations, its un-mutated twin in the same state).

import (
	"crypto/sha256"
	"fmt"

	specqbft "github.com/bloxapp/ssv-spec/qbft"
	spectypes "github.com/bloxapp/ssv-spec/types"

	"verifharness/hx"
)

// history: an honest run of the protocol for the scene's duty, in emission order.
func (sc *scene) history() []*draft {
	var out []*draft
	n := sc.n()
	q := int(sc.val.share.Quorum)
	tys := partialTypesOf(sc.role)
	if len(tys) > 1 {
		for p := 1; p <= n; p++ {
			out = append(out, sc.partDraft(sc.partial(p, tys[0], 1), 1))
		}
	}
	round := uint64(1)
	out = append(out, sc.consDraft(sc.proposal(1, false, sc.value)))
	for p := 1; p <= n; p++ {
		out = append(out, sc.consDraft(sc.prepare(p, 1, sc.value)))
	}
	if sc.r.Chance(1, 3) { // round 1 fails after prepare: prepared round change, justified proposal
		round = 2
		for p := 1; p <= n; p++ {
			out = append(out, sc.consDraft(sc.roundChange(p, 2, p <= q, sc.value)))
		}
		out = append(out, sc.consDraft(sc.proposal(2, true, sc.value)))
		for p := 1; p <= n; p++ {
			out = append(out, sc.consDraft(sc.prepare(p, 2, sc.value)))
		}
	}
	for p := 1; p <= n; p++ {
		out = append(out, sc.consDraft(sc.commit(p, round, sc.value)))
	}
	out = append(out, sc.consDraft(sc.decided(sc.quorumPositions(q), round, sc.value)))
	for p := 1; p <= n; p++ {
		out = append(out, sc.partDraft(sc.partial(p, tys[len(tys)-1], 1), round))
	}
	return out
}

func cloneCons(sm *specqbft.SignedMessage) *specqbft.SignedMessage {
	enc, err := sm.Encode()
	must(err)
	cp := &specqbft.SignedMessage{}
	must(cp.Decode(enc))
	return cp
}

func clonePart(pm *spectypes.SignedPartialSignatureMessage) *spectypes.SignedPartialSignatureMessage {
	enc, err := pm.Encode()
	must(err)
	cp := &spectypes.SignedPartialSignatureMessage{}
	must(cp.Decode(enc))
	return cp
}

func cloneDraft(d *draft) *draft {
	cp := *d
	if d.cons != nil {
		cp.cons = cloneCons(d.cons)
	}
	if d.part != nil {
		cp.part = clonePart(d.part)
	}
	return &cp
}

func mutationsFor(d *draft) []mutation {
	var out []mutation
	for _, m := range mutations {
		if m.on == "any" || (m.on == "cons" && d.cons != nil) || (m.on == "part" && d.part != nil) {
			out = append(out, m)
		}
	}
	return out
}

// mutationCase: prefix, mutated message, twin, the mutated message again.
func mutationCase(s *session, sc *scene, kind string, mut mutation, prefixLen int, tag string) {
	s.begin("prop=%s %s kind=%s mut=%s vid=%d role=%d prefix=%d", s.prop, tag, kind, mut.name, sc.val.vid, uint64(sc.role), prefixLen)
	s.fresh()
	if prefixLen > 0 {
		// the prefix is an honest run of the PREVIOUS slot, so that signer states exist
		prev := *sc
		prev.slot = sc.slot - 1
		if prev.role == spectypes.BNRoleProposer {
			prev.slot = sc.slot - 2
		}
		prev.value = append([]byte("prev-"), sc.value...)
		h := prev.history()
		if prefixLen > len(h) {
			prefixLen = len(h)
		}
		for _, d := range h[:prefixLen] {
			s.step(d.build())
		}
	}
	twin := sc.honest(kind)
	mutated := cloneDraft(twin)
	mut.apply(sc, mutated)
	if mutated.note != "" {
		s.out.Note("mutation note:%s", mutated.note)
	}
	s.out.Count("mut_" + mut.name)
	s.out.Count("kind_" + kind)
	s.step(mutated.build())
	if mut.name != "none" {
		s.out.Note("twin")
		s.step(twin.build())
		// the mutated message once more: whatever the first delivery left behind (signer state, cached keys, locks)
		// must not change how its repetition is handled
		s.out.Note("echo")
		s.step(mutated.build())
	}
	s.out.End()
}

func runValidate(u *universe, out *hx.Out, prop, stream string, seed uint64, n int) {
	s := newSession(u, out, prop)
	switch stream {
	case "table":
		// every (kind, mutation) pair once, validators / roles / eras vary with the index
		i := uint64(0)
		for _, kind := range honestKinds {
			sc0 := newScene(u, hx.NewRand(seed, "table-probe", 0))
			probe := sc0.honest(kind)
			for _, mut := range mutationsFor(probe) {
				i++
				r := hx.NewRand(seed, "table", i)
				sc := newScene(u, r)
				mutationCase(s, sc, kind, mut, 0, "table")
			}
		}
	case "mut":
		for i := 0; i < n; i++ {
			r := hx.NewRand(seed, "mut", uint64(i))
			sc := newScene(u, r)
			kind := hx.Pick(r, honestKinds...)
			ms := mutationsFor(sc.honest(kind))
			mut := ms[r.Intn(len(ms))]
			mutationCase(s, sc, kind, mut, r.Intn(12), "mut")
		}
	case "adv":
		for i := 0; i < n; i++ {
			advCase(s, hx.NewRand(seed, "adv", uint64(i)), i)
		}
	case "hist":
		for i := 0; i < n; i++ {
			if i%3 == 2 {
				partHistCase(s, hx.NewRand(seed, "parthist", uint64(i)), i)
				continue
			}
			histCase(s, hx.NewRand(seed, "hist", uint64(i)), i)
		}
	default:
		panic("unknown stream " + stream)
	}
}

var advU64 = []uint64{0, 1, 2, 1 << 62, 1 << 63, 1<<63 - 1, 1<<64 - 1, 1<<64 - 2}

// advCase: structurally valid messages with adversarial field values, after a random prefix.
func advCase(s *session, r *hx.Rand, i int) {
	u := s.u
	sc := newScene(u, r)
	if r.Chance(1, 4) {
		sc.val = hx.Pick(r, u.vals...) // also liquidated / metadata-less / exited validators
	}
	if r.Chance(1, 4) {
		sc.role = hx.Pick(r, allRoles...)
	}
	s.begin("prop=%s adv vid=%d role=%d", s.prop, sc.val.vid, uint64(sc.role))
	s.fresh()
	if r.Chance(1, 2) && sc.val.attesting && !sc.val.liquidated {
		h := sc.history()
		for _, d := range h[:r.Intn(len(h))] {
			s.step(d.build())
		}
	}
	for k := 0; k < 4; k++ {
		d := sc.honest(hx.Pick(r, honestKinds...))
		if r.Chance(1, 3) {
			d.role = hx.Pick(r, uint32(0), 1, 2, 3, 4, 5, 6, 7, 8, 255, 1<<31, 1<<32-1)
		}
		if r.Chance(1, 6) {
			d.msgType = hx.Pick(r, uint64(0), 1, 2, 3, 100, 200, 201, 1<<63, 1<<64-1)
		}
		if d.cons != nil {
			m := &d.cons.Message
			if r.Chance(1, 2) {
				m.Round = specqbft.Round(hx.Pick(r, append(advU64, 3, 6, 7, 12, 13)...))
			}
			if r.Chance(1, 2) {
				base := hx.Pick(r, advU64...)
				if r.Chance(1, 2) {
					base += sc.slot // wrap-around neighbours of the current slot
				}
				m.Height = specqbft.Height(base)
			}
			if r.Chance(1, 4) {
				m.MsgType = specqbft.MessageType(hx.Pick(r, uint64(0), 1, 2, 3, 4, 5, 1<<63, 1<<64-1))
			}
			if r.Chance(1, 2) {
				q := int(sc.val.share.Quorum)
				cnt := hx.Pick(r, 0, 1, q-1, q, sc.n(), sc.n()+1, 13, 14)
				var signers []spectypes.OperatorID
				for j := 0; j < cnt; j++ {
					if j < sc.n() {
						signers = append(signers, sc.val.committee[j])
					} else {
						signers = append(signers, sc.val.committee[sc.n()-1]+uint64(j-sc.n())+1)
					}
				}
				if r.Chance(1, 5) && len(signers) > 0 {
					signers[r.Intn(len(signers))] = hx.Pick(r, uint64(0), 1<<64-1, signers[0])
				}
				d.cons.Signers = signers
				if r.Chance(2, 3) && cnt > 1 {
					m.MsgType = specqbft.CommitMsgType
				}
			}
			if r.Chance(1, 8) {
				m.RoundChangeJustification = [][]byte{r.Bytes(r.Intn(40))}
			}
			if r.Chance(1, 8) {
				m.PrepareJustification = [][]byte{r.Bytes(r.Intn(40))}
			}
			if r.Chance(1, 8) {
				d.cons.FullData = r.Bytes(r.Intn(50))
				if r.Chance(1, 2) {
					m.Root = sha256.Sum256(d.cons.FullData)
				}
			}
		}
		if d.part != nil {
			if r.Chance(1, 2) {
				base := hx.Pick(r, advU64...)
				if r.Chance(1, 2) {
					base += sc.slot
				}
				d.part.Message.Slot = phaseSlot(base)
			}
			if r.Chance(1, 3) {
				d.part.Message.Type = spectypes.PartialSigMsgType(hx.Pick(r, uint64(0), 1, 2, 3, 4, 5, 6, 7, 1<<63, 1<<64-1))
			}
			if r.Chance(1, 5) {
				d.part.Signer = hx.Pick(r, uint64(0), 1<<64-1, 999)
			}
			if r.Chance(1, 8) {
				d.part.Message.Messages = nil
			}
		}
		if r.Chance(1, 8) {
			// reception time far from the slot: genesis, before genesis, far future
			d.sec = hx.Pick(r, int64(0), int64(u.netCfg.Beacon.MinGenesisTime()), int64(u.netCfg.Beacon.MinGenesisTime())+5, d.sec+400*12, d.sec+1<<33)
		}
		s.step(d.build())
	}
	s.out.End()
}

// partHistCase: histories of partial-signature messages for EVERY role (incl. validator registration and
// voluntary exit): the same signer again (a plain duplicate, another slot, another type of the role),
// other signers in between.
func partHistCase(s *session, r *hx.Rand, i int) {
	u := s.u
	sc := newScene(u, r)
	// the two roles without consensus get every second case: nothing else exercises their histories
	if i/3%2 == 0 {
		sc.role = hx.Pick(r, spectypes.BNRoleValidatorRegistration, spectypes.BNRoleVoluntaryExit)
	} else {
		sc.role = allRoles[i/6%len(allRoles)]
	}
	s.begin("prop=%s parthist vid=%d role=%d", s.prop, sc.val.vid, uint64(sc.role))
	s.fresh()
	tys := partialTypesOf(sc.role)
	base := sc.slot
	var sent []*draft
	for k := 0; k < 3+r.Intn(6); k++ {
		var d *draft
		if len(sent) > 0 && r.Chance(1, 3) {
			d = cloneDraft(sent[r.Intn(len(sent))]) // a plain duplicate
			s.out.Count("parthist_duplicate")
		} else {
			sc.slot = hx.Pick(r, base, base, base, base+1, base-1, base+32)
			ty := tys[r.Intn(len(tys))]
			if r.Chance(1, 10) {
				ty = spectypes.PartialSigMsgType(r.Intn(7)) // a type of another role
			}
			pos := 1 + r.Intn(sc.n())
			if r.Chance(2, 3) {
				pos = 1 + r.Intn(2) // mostly the same two signers: repeats are the point
			}
			d = sc.partDraft(sc.partial(pos, ty, 1+r.Intn(2)), 1)
		}
		sent = append(sent, d)
		s.step(d.build())
	}
	sc.slot = base
	s.out.End()
}

// histCase: per-signer limits.  One duty, messages of the honest run interleaved with replays,
// regressions in slot / round, second proposals with other data, decided floods, the next slots.
func histCase(s *session, r *hx.Rand, i int) {
	u := s.u
	sc := newScene(u, r)
	s.begin("prop=%s hist vid=%d role=%d", s.prop, sc.val.vid, uint64(sc.role))
	s.fresh()
	var sent []*draft
	emit := func(d *draft) {
		s.step(d.build())
		sent = append(sent, d)
	}
	// some operators are never heard with a message of their own: the validator keeps no state for them,
	// but they co-sign decided messages
	silent := map[spectypes.OperatorID]bool{}
	if r.Chance(1, 2) {
		for j := 0; j < 1+r.Intn(2); j++ {
			silent[sc.val.committee[r.Intn(sc.n())]] = true
		}
	}
	prevSlot := sc.slot
	slots := 1 + r.Intn(4)
	for k := 0; k < slots; k++ {
		h := sc.history()
		for _, d := range h {
			if r.Chance(1, 6) {
				continue // lost
			}
			if d.cons != nil && len(d.cons.Signers) == 1 && silent[d.cons.Signers[0]] {
				s.out.Count("hist_silent_drop")
				continue
			}
			if d.part != nil && silent[d.part.Signer] {
				s.out.Count("hist_silent_drop")
				continue
			}
			if d.cons != nil && len(d.cons.Signers) > 1 && r.Chance(1, 2) {
				// the decided message of the duty from another quorum
				d = sc.consDraft(sc.decided(sc.randomQuorum(r), uint64(d.cons.Message.Round), sc.value))
			}
			emit(d)
			switch r.Intn(12) {
			case 4, 5: // a decided message that takes its signers back: lower round, or the previous duty's slot
				if d.cons != nil {
					var dd *draft
					if d.cons.Message.Round > 1 && r.Chance(1, 2) {
						dd = sc.consDraft(sc.decided(sc.randomQuorum(r), 1, sc.value))
						s.out.Count("hist_decided_lower_round")
					} else if k > 0 {
						cur := sc.slot
						sc.slot = prevSlot
						dd = sc.consDraft(sc.decided(sc.randomQuorum(r), 1, sc.value))
						sc.slot = cur
						s.out.Count("hist_decided_lower_slot")
					}
					if dd != nil {
						dd.sec, dd.nsec = d.sec, d.nsec
						s.step(dd.build())
					}
				}
			case 0: // replay of an earlier message, received now
				old := cloneDraft(sent[r.Intn(len(sent))])
				old.sec, old.nsec = d.sec, d.nsec
				s.out.Count("hist_replay")
				s.step(old.build())
			case 1: // second proposal with different data from the same leader
				if d.cons != nil {
					p := sc.proposal(uint64(d.cons.Message.Round), false, append([]byte("other-"), sc.value...))
					if d.cons.Message.Round > 1 {
						p = sc.proposal(uint64(d.cons.Message.Round), true, sc.value)
						p.FullData = append([]byte("other-"), sc.value...)
						p.Message.Root = sha256.Sum256(p.FullData)
					}
					pd := sc.consDraft(p)
					pd.sec, pd.nsec = d.sec, d.nsec
					s.out.Count("hist_second_proposal")
					s.step(pd.build())
				}
			case 2: // decided flood: the same decided message many times
				if d.cons != nil {
					limit := sc.n() * ((sc.n()-1)/3 + 1)
					vary := r.Chance(1, 2)
					dd := sc.consDraft(sc.decided(sc.randomQuorum(r), uint64(d.cons.Message.Round), sc.value))
					for j := 0; j < limit+2; j++ {
						if vary && j > 0 {
							dd = sc.consDraft(sc.decided(sc.randomQuorum(r), uint64(d.cons.Message.Round), sc.value))
						}
						dd.sec, dd.nsec = d.sec, d.nsec
						s.step(dd.build())
					}
					s.out.Count("hist_decided_flood")
				}
			case 3: // a message of a lower round after this one
				if d.cons != nil && d.cons.Message.Round > 1 {
					low := sc.consDraft(sc.prepare(1+r.Intn(sc.n()), 1, sc.value))
					low.sec, low.nsec = d.sec, d.nsec
					s.out.Count("hist_lower_round")
					s.step(low.build())
				}
			}
		}
		// next duty: same epoch most of the time (duty count limits), sometimes the next epoch
		step := uint64(1 + r.Intn(3))
		if sc.role == spectypes.BNRoleProposer {
			step = 2 * uint64(1+r.Intn(2))
		}
		if r.Chance(1, 5) {
			step += slotsInEpoch
		}
		prevSlot = sc.slot
		sc.slot += step
		sc.value = append([]byte(fmt.Sprintf("value-%d-", k)), r.Bytes(8)...)
	}
	// late echoes: messages of the last duties come again one, two, or about an epoch of slots later (the window of
	// attester / aggregator messages is 34 slots): what the validator remembers of a signer must not fade while a
	// message of that signer can still be inside its window
	if len(sent) > 0 && r.Chance(2, 3) {
		for j := 0; j < 1+r.Intn(3); j++ {
			back := r.Intn(6)
			if back >= len(sent) {
				back = len(sent) - 1
			}
			old := cloneDraft(sent[len(sent)-1-back])
			old.sec += int64(hx.Pick(r, 1, 2, 31, 32, 33, 33, 34, 34, 35, 36)) * slotSeconds
			s.out.Count("hist_late_echo")
			s.step(old.build())
		}
	}
	s.out.End()
}
