package main

// The metrics stream of the decode mode (C08, "allocating without bound"): the real metrics reporter
// behind ValidatePubsubMessage, fed messages whose attacker-controlled round / message type / QBFT type
// is different every time.  Monitor: growth of the live heap (after GC) stays below a generous bound.

import (
	"fmt"
	"runtime"
	"sync"

	specqbft "github.com/bloxapp/ssv-spec/qbft"
	spectypes "github.com/bloxapp/ssv-spec/types"
	pubsub "github.com/libp2p/go-libp2p-pubsub"
	pspb "github.com/libp2p/go-libp2p-pubsub/pb"

	"github.com/bloxapp/ssv/message/validation"
	"github.com/bloxapp/ssv/monitoring/metricsreporter"
	"github.com/bloxapp/ssv/network/commons"

	"verifharness/hx"
)

const metricsHeapBound = 20 << 20 // bytes of live-heap growth allowed for 3 x n messages

var (
	realReporterOnce sync.Once
	realReporter     metricsreporter.MetricsReporter
)

func liveHeap() uint64 {
	runtime.GC()
	runtime.GC()
	var ms runtime.MemStats
	runtime.ReadMemStats(&ms)
	return ms.HeapAlloc
}

func metricsCase(s *session, n int) {
	u := s.u
	realReporterOnce.Do(func() { realReporter = metricsreporter.New() })
	// ValidatePubsubMessage reads the real clock; keep the unsigned era whatever the date is
	netCfg := u.netCfg
	netCfg.PermissionlessActivationEpoch = 1 << 62
	v := validation.NewMessageValidator(netCfg, validation.WithNodeStorage(u.ns), validation.WithDutyStore(u.duties),
		validation.WithMetrics(realReporter))
	sc := newScene(u, hx.NewRand(1, "metrics", 0))
	sc.val, sc.role, sc.signed, sc.p2p = u.vals[0], spectypes.BNRoleAttester, false, true
	sc.slot = baseEpoch*slotsInEpoch + 5
	d := sc.consDraft(sc.prepare(2, 1, sc.value))
	topic := d.topic
	send := func(msg *spectypes.SSVMessage) {
		raw, err := commons.EncodeNetworkMsg(msg)
		if err != nil {
			return
		}
		_ = v.ValidatePubsubMessage(nil, "", &pubsub.Message{Message: &pspb.Message{Data: raw, Topic: &topic}})
	}
	s.out.Case("prop=%s metrics labels from attacker-chosen values", s.prop)
	s.out.Op("METRICS", "%d", n)
	before := liveHeap()
	panicked := ""
	func() {
		defer func() {
			if r := recover(); r != nil {
				panicked = fmt.Sprint(r)
			}
		}()
		for i := 0; i < n; i++ {
			// distinct round (the message is ignored: round too high)
			d.cons.Message.Round = specqbft.Round(1000 + i)
			enc, _ := d.cons.Encode()
			send(&spectypes.SSVMessage{MsgType: spectypes.SSVConsensusMsgType, MsgID: d.msgID(), Data: enc})
			// distinct QBFT message type
			d.cons.Message.Round = 1
			d.cons.Message.MsgType = specqbft.MessageType(1000 + i)
			enc, _ = d.cons.Encode()
			send(&spectypes.SSVMessage{MsgType: spectypes.SSVConsensusMsgType, MsgID: d.msgID(), Data: enc})
			d.cons.Message.MsgType = specqbft.PrepareMsgType
			// distinct SSV message type
			send(&spectypes.SSVMessage{MsgType: spectypes.MsgType(1000 + i), MsgID: d.msgID(), Data: enc})
		}
	}()
	after := liveHeap()
	growth := int64(after) - int64(before)
	s.out.Note("metrics: %d messages, live heap %d -> %d bytes (growth %d, bound %d)", 3*n, before, after, growth, metricsHeapBound)
	s.out.Count("metrics_messages")
	s.out.Dist["fuzz_inputs"] += 3 * n
	if panicked != "" {
		s.report("C08", "panic: ValidatePubsubMessage with the real metrics reporter: %s", panicked)
	}
	if growth > metricsHeapBound {
		s.report("C08", "unbounded allocation: %d messages with distinct round / type values leave %d bytes of live heap behind (bound %d): metric label values taken from the message",
			3*n, growth, metricsHeapBound)
	}
	s.out.End()
}
