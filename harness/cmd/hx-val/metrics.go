package main

// The metrics stream of the decode mode (C08, "allocating without bound"): the real metrics reporter
// behind ValidatePubsubMessage, fed messages whose attacker-controlled round / message type / QBFT type
// is different every time.  Monitor: growth of the live heap (after GC) stays below a generous bound.

import (
	"fmt"
	"runtime"
	"sync"

	specqbft "github.com/bloxapp/ssv-spec/qbft"
	spectypes "github.com/bloxapp/ssv-spec/types"
	"github.com/herumi/bls-eth-go-binary/bls"
	pubsub "github.com/libp2p/go-libp2p-pubsub"
	pspb "github.com/libp2p/go-libp2p-pubsub/pb"

	"github.com/bloxapp/ssv/message/validation"
	"github.com/bloxapp/ssv/monitoring/metricsreporter"
	"github.com/bloxapp/ssv/network/commons"

	"verifharness/hx"
)

const metricsHeapBound = 20 << 20 // bytes of live-heap growth allowed for 3 x n messages

var (
	realReporterOnce sync.Once
	realReporter     metricsreporter.MetricsReporter
)

func liveHeap() uint64 {
	runtime.GC()
	runtime.GC()
	var ms runtime.MemStats
	runtime.ReadMemStats(&ms)
	return ms.HeapAlloc
}

func metricsCase(s *session, n int) {
	u := s.u
	realReporterOnce.Do(func() { realReporter = metricsreporter.New() })
	// ValidatePubsubMessage reads the real clock; keep the unsigned era whatever the date is
	netCfg := u.netCfg
	netCfg.PermissionlessActivationEpoch = 1 << 62
	v := validation.NewMessageValidator(netCfg, validation.WithNodeStorage(u.ns), validation.WithDutyStore(u.duties),
		validation.WithMetrics(realReporter))
	sc := newScene(u, hx.NewRand(1, "metrics", 0))
	sc.val, sc.role, sc.signed, sc.p2p = u.vals[0], spectypes.BNRoleAttester, false, true
	sc.slot = baseEpoch*slotsInEpoch + 5
	d := sc.consDraft(sc.prepare(2, 1, sc.value))
	topic := d.topic
	send := func(msg *spectypes.SSVMessage) {
		raw, err := commons.EncodeNetworkMsg(msg)
		if err != nil {
			return
		}
		_ = v.ValidatePubsubMessage(nil, "", &pubsub.Message{Message: &pspb.Message{Data: raw, Topic: &topic}})
	}
	s.out.Case("prop=%s metrics labels from attacker-chosen values", s.prop)
	s.out.Op("METRICS", "%d", n)
	before := liveHeap()
	panicked := ""
	func() {
		defer func() {
			if r := recover(); r != nil {
				panicked = fmt.Sprint(r)
			}
		}()
		for i := 0; i < n; i++ {
			// distinct round (the message is ignored: round too high)
			d.cons.Message.Round = specqbft.Round(1000 + i)
			enc, _ := d.cons.Encode()
			send(&spectypes.SSVMessage{MsgType: spectypes.SSVConsensusMsgType, MsgID: d.msgID(), Data: enc})
			// distinct QBFT message type
			d.cons.Message.Round = 1
			d.cons.Message.MsgType = specqbft.MessageType(1000 + i)
			enc, _ = d.cons.Encode()
			send(&spectypes.SSVMessage{MsgType: spectypes.SSVConsensusMsgType, MsgID: d.msgID(), Data: enc})
			d.cons.Message.MsgType = specqbft.PrepareMsgType
			// distinct SSV message type
			send(&spectypes.SSVMessage{MsgType: spectypes.MsgType(1000 + i), MsgID: d.msgID(), Data: enc})
		}
	}()
	after := liveHeap()
	growth := int64(after) - int64(before)
	s.out.Note("metrics: %d messages, live heap %d -> %d bytes (growth %d, bound %d)", 3*n, before, after, growth, metricsHeapBound)
	s.out.Count("metrics_messages")
	s.out.Dist["fuzz_inputs"] += 3 * n
	if panicked != "" {
		s.report("C08", "panic: ValidatePubsubMessage with the real metrics reporter: %s", panicked)
	}
	if growth > metricsHeapBound {
		s.report("C08", "unbounded allocation: %d messages with distinct round / type values leave %d bytes of live heap behind (bound %d): metric label values taken from the message",
			3*n, growth, metricsHeapBound)
	}
	s.out.End()
}

// strangersCase: what the validator keeps after REJECTED input.  Messages for made-up validators (fresh, well-formed
// BLS public keys nobody registered, all seven roles) are rejected as unknown validator; none of them may leave
// anything behind - the sender chooses the key, so whatever is kept per message id is kept without bound.
const strangersHeapBound = 1 << 20 // bytes of live-heap growth allowed for all of them

func strangersCase(s *session, keys int) {
	u := s.u
	netCfg := u.netCfg
	netCfg.PermissionlessActivationEpoch = 1 << 62
	v := validation.NewMessageValidator(netCfg, validation.WithNodeStorage(u.ns), validation.WithDutyStore(u.duties))
	sc := newScene(u, hx.NewRand(1, "strangers", 0))
	sc.val, sc.role, sc.signed, sc.p2p = u.vals[0], spectypes.BNRoleAttester, false, true
	sc.slot = baseEpoch*slotsInEpoch + 5
	d := sc.consDraft(sc.prepare(2, 1, sc.value))
	enc, _ := d.cons.Encode()
	s.out.Case("prop=%s rejected messages of made-up validators leave nothing behind", s.prop)
	s.out.Op("STRANGERS", "%d", keys)
	// the keys first, so that their generation is not part of the measurement
	pks := make([][]byte, keys)
	for i := range pks {
		var sk bls.SecretKey
		sk.SetByCSPRNG()
		pks[i] = sk.GetPublicKey().Serialize()
	}
	roles := []spectypes.BeaconRole{spectypes.BNRoleAttester, spectypes.BNRoleAggregator, spectypes.BNRoleProposer,
		spectypes.BNRoleSyncCommittee, spectypes.BNRoleSyncCommitteeContribution, spectypes.BNRoleValidatorRegistration,
		spectypes.BNRoleVoluntaryExit}
	panicked := ""
	rejected := 0
	var before uint64
	func() {
		defer func() {
			if r := recover(); r != nil {
				panicked = fmt.Sprint(r)
			}
		}()
		// First every key once (role 0): bounded caches keyed by the public key (the LRU of deserialised BLS keys)
		// fill up here and are not part of the measurement.  Then the measured pass: the same keys under the other
		// six roles - new message ids, no new keys.
		for pass, rs := range [][]spectypes.BeaconRole{roles[:1], roles[1:]} {
			if pass == 1 {
				before = liveHeap()
			}
			for _, pk := range pks {
				for _, role := range rs {
					id := spectypes.NewMsgID(spectypes.DomainType(d.domain), pk, role)
					raw, err := commons.EncodeNetworkMsg(&spectypes.SSVMessage{MsgType: spectypes.SSVConsensusMsgType, MsgID: id, Data: enc})
					if err != nil {
						continue
					}
					// the topic of that key (the first five bytes of the key, big endian, modulo the subnet count)
					var prefix uint64
					for _, b := range pk[:5] {
						prefix = prefix<<8 | uint64(b)
					}
					topic := fmt.Sprintf("ssv.v2.%d", prefix%128)
					if v.ValidatePubsubMessage(nil, "", &pubsub.Message{Message: &pspb.Message{Data: raw, Topic: &topic}}) != pubsub.ValidationAccept {
						rejected++
					}
				}
			}
		}
	}()
	after := liveHeap()
	runtime.KeepAlive(v) // what the validator holds is what is measured: it must be alive at the second measurement
	runtime.KeepAlive(pks)
	growth := int64(after) - int64(before)
	s.out.Note("strangers: %d messages (%d not accepted), the last %d measured: live heap %d -> %d bytes (growth %d, bound %d)", keys*len(roles), rejected, keys*(len(roles)-1), before, after, growth, strangersHeapBound)
	s.out.Count("strangers_messages")
	s.out.Dist["fuzz_inputs"] += keys * len(roles)
	if panicked != "" {
		s.report("C08", "panic: ValidatePubsubMessage on a message of a made-up validator: %s", panicked)
	}
	if growth > strangersHeapBound {
		s.report("C08", "unbounded allocation: %d rejected messages of made-up validators leave %d bytes of live heap behind (bound %d): something is kept per message id of validators nobody registered",
			keys*len(roles), growth, strangersHeapBound)
	}
	s.out.End()
}
