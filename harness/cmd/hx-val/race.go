package main

// The race mode: the same honest runs (every message three times) for several message ids are
// validated by concurrent goroutines on one validator.  Monitor only: no panic (C08); on the set
// of accepted consensus messages the per-signer, per-round limits hold (C09) - i.e. the per-id
// mutex really serialises the read-check-update of the signer state.

import (
	"fmt"
	"os"
	"sync"
	"sync/atomic"
	"time"

	"github.com/attestantio/go-eth2-client/spec/phase0"
	specqbft "github.com/bloxapp/ssv-spec/qbft"

	"verifharness/hx"
)

func phaseSlot(x uint64) phase0.Slot { return phase0.Slot(x) }

type raceItem struct {
	in   *input
	a    *abstracted
	res  outcome
	done bool
}

// waitOrHang waits for the group; false if it has not finished after d (validation hangs).
func waitOrHang(wg *sync.WaitGroup, d time.Duration) bool {
	done := make(chan struct{})
	go func() { wg.Wait(); close(done) }()
	select {
	case <-done:
		return true
	case <-time.After(d):
		return false
	}
}

// hang reports validation calls that never returned (C08: "without hanging") and ends the run: the stuck
// goroutines cannot be cancelled.
func hang(s *session, out *hx.Out, what string) {
	s.report("C08", "message validation hangs: %s did not return within %v", what, hangAfter)
	out.End()
	out.Close()
	os.Exit(0)
}

const hangAfter = 60 * time.Second

func runRace(u *universe, out *hx.Out, prop string, seed uint64, n int) {
	s := newSession(u, out, prop)
	for c := 0; c < n; c++ {
		r := hx.NewRand(seed, "race", uint64(c))
		out.Case("prop=%s race", prop)
		v := u.newValidator()
		var items []*raceItem
		fds := &fdTable{}
		ids := 1 + r.Intn(3)
		// every second case is a storm on ONE message id: each message ten times, so that new arrivals keep
		// coming while earlier ones of the same id are waiting for or holding its lock
		copies := 3
		storm := c%2 == 0
		if storm {
			ids, copies = 1, 10
		}
		base := newScene(u, r)
		if storm {
			base.signed, base.p2p = true, true // the RSA check of the envelope runs inside the per-id lock
		}
		for k := 0; k < ids; k++ {
			sc := *base
			if k > 0 {
				sc = *newScene(u, r)
				sc.slot = base.slot
				sc.signed, sc.p2p = base.signed, base.p2p
			}
			for _, d := range sc.history() {
				in := d.build()
				for rep := 0; rep < copies; rep++ {
					items = append(items, &raceItem{in: in, a: u.abstract(in, fds)})
				}
			}
		}
		// shuffle
		for i := len(items) - 1; i > 0; i-- {
			j := r.Intn(i + 1)
			items[i], items[j] = items[j], items[i]
		}
		workers := 8
		// Bursts: a validator that has never seen the message id receives the id's first consensus
		// message from all workers at the same instant (the creation of the per-id lock is itself a
		// read-check-update).  At most one copy may be accepted.
		bursts := 24
		burstAccepted := 0
		for b := 0; b < bursts; b++ {
			bsc := newScene(u, r)
			bsc.slot = base.slot
			bsc.signed, bsc.p2p = base.signed, base.p2p
			var first *input
			for _, d := range bsc.history() {
				if d.cons != nil && len(d.cons.Signers) == 1 {
					first = d.build()
					break
				}
			}
			if first == nil {
				continue
			}
			bv := u.newValidator()
			var ready atomic.Int32 // spin barrier: all workers enter the validator within the same instant
			res := make([]outcome, workers)
			var bw sync.WaitGroup
			for w := 0; w < workers; w++ {
				bw.Add(1)
				go func(w int) {
					defer bw.Done()
					ready.Add(1)
					for ready.Load() < int32(workers) {
					}
					res[w] = callValidator(bv, first)
				}(w)
			}
			if !waitOrHang(&bw, hangAfter) {
				hang(s, out, fmt.Sprintf("a burst of %d concurrent validations of one message", workers))
			}
			acc := 0
			for _, o := range res {
				out.Count("burst_" + o.class)
				if o.class == "panic" {
					s.report("C08", "panic under concurrent validation: %s", o.panic)
				}
				if o.class == "accept" {
					acc++
				}
			}
			if acc > 1 {
				s.report("C09", "a validator that had not seen the message id accepted %d copies of its first consensus message validated concurrently (limit 1)", acc)
			}
			burstAccepted += acc
		}
		out.Note("bursts: %d, accepted %d", bursts, burstAccepted)
		out.Op("CONC", "%d %d %d", len(items), workers, ids)
		ch := make(chan *raceItem)
		var wg sync.WaitGroup
		for w := 0; w < workers; w++ {
			wg.Add(1)
			go func() {
				defer wg.Done()
				for it := range ch {
					it.res = callValidator(v, it.in)
					it.done = true
				}
			}()
		}
		for _, it := range items {
			select {
			case ch <- it:
			case <-time.After(hangAfter):
				hang(s, out, fmt.Sprintf("all %d workers (validating messages of %d message ids)", workers, ids))
			}
		}
		close(ch)
		if !waitOrHang(&wg, hangAfter) {
			hang(s, out, fmt.Sprintf("%d workers validating %d messages of %d message ids", workers, len(items), ids))
		}
		type ck struct {
			vid         int
			role        uint64
			signer      uint64
			slot, round uint64
			kind        int
		}
		tally := func(items []*raceItem, label, how string) int {
			counts := map[ck]int{}
			accepted := 0
			for _, it := range items {
				out.Count(label + "_" + it.res.class)
				if it.res.class == "panic" {
					s.report("C08", "panic under concurrent validation: %s", it.res.panic)
				}
				if it.res.class != "accept" || it.a.cons == nil || it.a.val == nil {
					continue
				}
				accepted++
				sm := it.a.cons
				kind := int(sm.Message.MsgType)
				limit := 1
				nn := len(it.a.val.committee)
				if sm.Message.MsgType == specqbft.CommitMsgType && len(sm.Signers) > 1 {
					kind, limit = 4, nn*((nn-1)/3+1)
				}
				for _, sg := range sm.Signers {
					k := ck{it.a.val.vid, uint64(it.a.ssvMsg.MsgID.GetRoleType()), sg, uint64(sm.Message.Height), uint64(sm.Message.Round), kind}
					counts[k]++
					if counts[k] == limit+1 {
						s.report("C09", "%s accepted %d messages of kind %d from signer %d in (slot %d, round %d), limit %d",
							how, counts[k], kind, sg, k.slot, k.round, limit)
					}
				}
			}
			return accepted
		}
		accepted := tally(items, "race", "concurrent validation")
		// Pipelines: every worker walks the SAME ordered run of one message id on a fresh validator, with no
		// barrier between the messages - so while one worker still validates message j under the id's lock,
		// others have finished their (duplicate, quickly rejected) copy of j and arrive with message j+1.
		// Whatever the per-id lock's lifetime is, at most one copy of each message may be accepted.
		pipes, pipeAccepted := 6, 0
		for p := 0; p < pipes; p++ {
			psc := newScene(u, r)
			psc.slot = base.slot
			psc.signed, psc.p2p = true, true // the signature check sits between the read and the update of the signer state
			var ins []*input
			for _, d := range psc.history() {
				ins = append(ins, d.build())
			}
			pv := u.newValidator()
			var all []*raceItem
			var ready atomic.Int32
			var pw sync.WaitGroup
			for w := 0; w < workers; w++ {
				mine := make([]*raceItem, len(ins))
				for i, in := range ins {
					mine[i] = &raceItem{in: in, a: u.abstract(in, fds)}
				}
				all = append(all, mine...)
				pw.Add(1)
				go func(mine []*raceItem) {
					defer pw.Done()
					ready.Add(1)
					for ready.Load() < int32(workers) {
					}
					for _, it := range mine {
						it.res = callValidator(pv, it.in)
						it.done = true
					}
				}(mine)
			}
			if !waitOrHang(&pw, hangAfter) {
				hang(s, out, fmt.Sprintf("%d workers each validating the same run of %d messages of one message id", workers, len(ins)))
			}
			pipeAccepted += tally(all, "pipe", "a pipeline of workers validating the same run of one message id")
		}
		out.Note("pipelines: %d, accepted %d", pipes, pipeAccepted)
		out.Note("race: %d inputs, %d accepted", len(items), accepted)
		out.End()
	}
}
