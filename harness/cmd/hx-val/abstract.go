package main

// Concrete inputs (what the real validator is fed), their RAW encoding (for replay), and the
// abstraction to the model's envelope (the VAL line).  Abstraction functions are small and total;
// decoders, hashes, RSA verification and the justification check are evaluated with real code and
// handed to the model as oracle bits.

import (
	"bytes"
	"crypto/rsa"
	"crypto/sha256"
	"crypto/x509"
	"encoding/binary"
	"encoding/hex"
	"encoding/pem"
	"errors"
	"fmt"
	"strconv"
	"strings"
	"time"

	specqbft "github.com/bloxapp/ssv-spec/qbft"
	spectypes "github.com/bloxapp/ssv-spec/types"
	pubsub "github.com/libp2p/go-libp2p-pubsub"
	pspb "github.com/libp2p/go-libp2p-pubsub/pb"

	"github.com/bloxapp/ssv/message/validation"
	ssvmessage "github.com/bloxapp/ssv/protocol/v2/message"
	"github.com/bloxapp/ssv/protocol/v2/qbft"
	"github.com/bloxapp/ssv/protocol/v2/qbft/instance"
	ssvtypes "github.com/bloxapp/ssv/protocol/v2/types"
)

func parseRSAPublicKeyPEM(pemBytes []byte) (*rsa.PublicKey, error) {
	block, _ := pem.Decode(pemBytes)
	if block == nil {
		return nil, errors.New("no pem block")
	}
	pub, err := x509.ParsePKIXPublicKey(block.Bytes)
	if err != nil {
		return nil, err
	}
	r, ok := pub.(*rsa.PublicKey)
	if !ok {
		return nil, errors.New("not rsa")
	}
	return r, nil
}

// input is one call of validateP2PMessage (p2p) or validateSSVMessage.
type input struct {
	p2p   bool
	sec   int64
	nsec  int64
	topic string                // p2p only
	data  []byte                // p2p only: pMsg.Data
	msg   *spectypes.SSVMessage // direct only
}

// ---- RAW encoding -------------------------------------------------------------------------------

// encBytes: hex, with runs of >= 64 equal bytes written as <hh>x<count>; segments joined by '.'
func encBytes(b []byte) string {
	if len(b) == 0 {
		return "-"
	}
	var segs []string
	i, start := 0, 0
	flush := func(end int) {
		if end > start {
			segs = append(segs, hex.EncodeToString(b[start:end]))
		}
	}
	for i < len(b) {
		j := i
		for j < len(b) && b[j] == b[i] {
			j++
		}
		if j-i >= 64 {
			flush(i)
			segs = append(segs, fmt.Sprintf("%02xx%d", b[i], j-i))
			start = j
		}
		i = j
	}
	flush(len(b))
	return strings.Join(segs, ".")
}

func decBytes(s string) ([]byte, error) {
	if s == "-" {
		return nil, nil
	}
	var out []byte
	for _, seg := range strings.Split(s, ".") {
		if k := strings.IndexByte(seg, 'x'); k == 2 {
			v, err := hex.DecodeString(seg[:2])
			if err != nil {
				return nil, err
			}
			n, err := strconv.Atoi(seg[3:])
			if err != nil || n < 0 || n > 64<<20 {
				return nil, fmt.Errorf("bad run %q", seg)
			}
			out = append(out, bytes.Repeat(v, n)...)
			continue
		}
		v, err := hex.DecodeString(seg)
		if err != nil {
			return nil, err
		}
		out = append(out, v...)
	}
	return out, nil
}

func encTopic(t string) string {
	if t == "" {
		return "-"
	}
	return strings.NewReplacer("%", "%25", " ", "%20", "\n", "%0A").Replace(t)
}

func decTopic(t string) string {
	if t == "-" {
		return ""
	}
	return strings.NewReplacer("%20", " ", "%0A", "\n", "%25", "%").Replace(t)
}

func (in *input) rawLine() string {
	if in.p2p {
		return fmt.Sprintf("P %d %d %s %s", in.sec, in.nsec, encTopic(in.topic), encBytes(in.data))
	}
	return fmt.Sprintf("S %d %d %d %s %s", in.sec, in.nsec, uint64(in.msg.MsgType), hex.EncodeToString(in.msg.MsgID[:]), encBytes(in.msg.Data))
}

func parseRaw(f []string) (*input, error) {
	if len(f) < 5 {
		return nil, errors.New("short RAW line")
	}
	sec, err1 := strconv.ParseInt(f[1], 10, 64)
	nsec, err2 := strconv.ParseInt(f[2], 10, 64)
	if err1 != nil || err2 != nil {
		return nil, errors.New("bad time")
	}
	switch f[0] {
	case "P":
		d, err := decBytes(f[4])
		if err != nil {
			return nil, err
		}
		return &input{p2p: true, sec: sec, nsec: nsec, topic: decTopic(f[3]), data: d}, nil
	case "S":
		if len(f) < 6 {
			return nil, errors.New("short RAW S line")
		}
		ty, err := strconv.ParseUint(f[3], 10, 64)
		if err != nil {
			return nil, err
		}
		id, err := hex.DecodeString(f[4])
		if err != nil || len(id) != 56 {
			return nil, errors.New("bad msg id")
		}
		d, err := decBytes(f[5])
		if err != nil {
			return nil, err
		}
		m := &spectypes.SSVMessage{MsgType: spectypes.MsgType(ty), Data: d}
		copy(m.MsgID[:], id)
		return &input{sec: sec, nsec: nsec, msg: m}, nil
	}
	return nil, errors.New("bad RAW kind")
}

// ---- abstraction --------------------------------------------------------------------------------

type fdTable struct {
	ids map[string]int
}

func (t *fdTable) id(b []byte) int {
	if t.ids == nil {
		t.ids = map[string]int{}
	}
	if v, ok := t.ids[string(b)]; ok {
		return v
	}
	t.ids[string(b)] = len(t.ids) + 1
	return len(t.ids)
}

func allZero(b []byte) bool {
	for _, x := range b {
		if x != 0 {
			return false
		}
	}
	return true
}

// topicNumber: Some k when the topic, with the first "ssv.v2." removed, is the canonical decimal k.
func topicNumber(topic string) string {
	base := strings.Replace(topic, "ssv.v2.", "", 1)
	k, err := strconv.ParseUint(base, 10, 64)
	if err != nil || strconv.FormatUint(k, 10) != base {
		return "-"
	}
	return base
}

// abstracted is the model's view plus what the monitors need of the decoded message.
type abstracted struct {
	line     string
	active   bool
	ssvMsg   *spectypes.SSVMessage // decoded SSVMessage (nil when the p2p payload does not decode)
	payload  []byte
	opID     uint64
	sig      []byte
	val      *valInfo
	cons     *specqbft.SignedMessage
	part     *spectypes.SignedPartialSignatureMessage
	rsaOK    bool
	opFound  bool
	opKeyOK  bool
	justOK   bool
	dutyOK   bool
	absPanic string // the abstraction's own call into real code panicked (reported for C08)
}

func (u *universe) estSlot(sec int64) uint64 {
	g := int64(u.netCfg.Beacon.MinGenesisTime())
	if sec < g {
		return 0
	}
	return uint64(sec-g) / slotSeconds
}

func (u *universe) abstract(in *input, fds *fdTable) *abstracted {
	a := &abstracted{}
	var sb strings.Builder
	fmt.Fprintf(&sb, "%d %d %d", in.sec, in.nsec, b2i(in.p2p))
	ssvOK := true
	if in.p2p {
		a.active = u.estSlot(in.sec)/slotsInEpoch > permEpoch
		a.payload = in.data
		if a.active && len(in.data) >= 264 {
			a.sig = in.data[:256]
			a.opID = binary.LittleEndian.Uint64(in.data[256:264])
			a.payload = in.data[264:]
			if op, ok := u.operators[a.opID]; ok {
				a.opFound = true
				if op.pub != nil {
					a.opKeyOK = true
					a.rsaOK = stdVerify(op.pub, a.payload, a.sig)
				}
			}
		}
		m := &spectypes.SSVMessage{}
		if a.active && len(in.data) < 264 {
			ssvOK = false
		} else if err := m.Decode(a.payload); err != nil {
			ssvOK = false
		} else {
			a.ssvMsg = m
		}
		fmt.Fprintf(&sb, " %d %s %d %d %d %d", len(in.data), topicNumber(in.topic), b2i(a.opFound), b2i(a.opKeyOK), b2i(a.rsaOK), b2i(ssvOK))
	} else {
		a.ssvMsg = in.msg
		fmt.Fprintf(&sb, " 0 - 0 0 0 1")
	}
	if a.ssvMsg == nil {
		sb.WriteString(" 0 0 0 0 0 0 0 U")
		a.line = sb.String()
		return a
	}
	m := a.ssvMsg
	id := m.MsgID
	domain := uint64(binary.BigEndian.Uint32(id[0:4]))
	prefix := uint64(id[4])<<32 | uint64(id[5])<<24 | uint64(id[6])<<16 | uint64(id[7])<<8 | uint64(id[8])
	role := uint64(binary.LittleEndian.Uint32(id[52:56]))
	pk := id[4:52]
	_, derr := ssvtypes.DeserializeBLSPublicKey(pk)
	a.val = u.byPK[string(pk)]
	vid := 0
	if a.val != nil {
		vid = a.val.vid
	}
	fmt.Fprintf(&sb, " %d %d %d %d %d %d %d", len(m.Data), domain, prefix, role, b2i(derr == nil), vid, uint64(m.MsgType))
	switch m.MsgType {
	case spectypes.SSVConsensusMsgType:
		sm := &specqbft.SignedMessage{}
		if err := sm.Decode(m.Data); err != nil {
			sb.WriteString(" U")
			break
		}
		a.cons = sm
		pj, perr := sm.Message.GetPrepareJustifications()
		rcj, rerr := sm.Message.GetRoundChangeJustifications()
		a.justOK = true
		if a.val != nil && perr == nil && rerr == nil && sm.Message.MsgType == specqbft.ProposalMsgType {
			func() {
				defer func() {
					if r := recover(); r != nil {
						a.absPanic = fmt.Sprintf("IsProposalJustification: %v", r)
						a.justOK = false
					}
				}()
				cfg := &qbft.Config{Domain: u.netCfg.Domain, SignatureVerification: false}
				a.justOK = instance.IsProposalJustification(cfg, a.val.share, rcj, pj, sm.Message.Height, sm.Message.Round, sm.FullData) == nil
			}()
		}
		a.dutyOK = true
		if a.val != nil {
			a.dutyOK = u.dutyOK(spectypes.BeaconRole(role), uint64(sm.Message.Height), a.val)
		}
		h := sha256.Sum256(sm.FullData)
		fmt.Fprintf(&sb, " C %d %d %d %d %d %d", len(sm.Signature), b2i(allZero(sm.Signature)), uint64(sm.Message.MsgType),
			uint64(sm.Message.Height), uint64(sm.Message.Round), len(sm.Signers))
		for _, s := range sm.Signers {
			fmt.Fprintf(&sb, " %d", s)
		}
		fmt.Fprintf(&sb, " %d %d %d %d %d %d %d %d %d", len(sm.FullData), fds.id(sm.FullData), b2i(h == sm.Message.Root),
			b2i(perr == nil), len(pj), b2i(rerr == nil), len(rcj), b2i(a.justOK), b2i(a.dutyOK))
	case spectypes.SSVPartialSignatureMsgType:
		pm := &spectypes.SignedPartialSignatureMessage{}
		if err := pm.Decode(m.Data); err != nil {
			sb.WriteString(" U")
			break
		}
		a.part = pm
		fmt.Fprintf(&sb, " P %d %d %d %d %d %d", uint64(pm.Message.Type), uint64(pm.Message.Slot), pm.Signer,
			len(pm.Signature), b2i(allZero(pm.Signature)), len(pm.Message.Messages))
		roots := &fdTable{}
		for _, x := range pm.Message.Messages {
			fmt.Fprintf(&sb, " %d %d %d %d", x.Signer, roots.id(x.SigningRoot[:]), len(x.PartialSignature), b2i(allZero(x.PartialSignature)))
		}
	case ssvmessage.SSVEventMsgType:
		ev := &ssvtypes.EventMsg{}
		if err := ev.Decode(m.Data); err != nil {
			sb.WriteString(" U")
		} else {
			sb.WriteString(" E")
		}
	default:
		sb.WriteString(" U")
	}
	a.line = sb.String()
	return a
}

// ---- running the real validator -----------------------------------------------------------------

type outcome struct {
	class string // accept | ignore | reject | panic
	text  string // canonicalised error text, "-" for accept / panic
	panic string
	err   error
}

func canon(s string) string {
	b := []byte(s)
	for i, c := range b {
		if !(c >= 'a' && c <= 'z' || c >= 'A' && c <= 'Z' || c >= '0' && c <= '9') {
			b[i] = '_'
		}
	}
	return string(b)
}

func classify(err error) outcome {
	if err == nil {
		return outcome{class: "accept", text: "-"}
	}
	var ve validation.Error
	if errors.As(err, &ve) {
		if ve.Reject() {
			return outcome{class: "reject", text: canon(ve.Text()), err: err}
		}
		return outcome{class: "ignore", text: canon(ve.Text()), err: err}
	}
	return outcome{class: "ignore", text: "other_" + canon(err.Error()), err: err}
}

func (in *input) receivedAt() time.Time { return time.Unix(in.sec, in.nsec) }

func callValidator(v validation.MessageValidator, in *input) (out outcome) {
	defer func() {
		if r := recover(); r != nil {
			out = outcome{class: "panic", text: "-", panic: fmt.Sprint(r)}
		}
	}()
	var err error
	if in.p2p {
		topic := in.topic
		pm := &pubsub.Message{Message: &pspb.Message{Data: in.data, Topic: &topic}}
		_, _, err = validation.VerifValidateP2PMessage(v, pm, in.receivedAt())
	} else {
		cp := *in.msg // the validator keeps a pointer to the message it accepts
		_, _, err = validation.VerifValidateSSVMessage(v, &cp, in.receivedAt())
	}
	return classify(err)
}
