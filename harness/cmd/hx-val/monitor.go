package main

// Property monitors, evaluated on the concrete message and the implementation's verdict only
// (independent of the model).
//   C08: the call panicked.
//   C09: the message was accepted although it breaks one of the gossip rules, or the set of
//        accepted consensus messages breaks a per-signer limit.
// The numbers below are the documented windows (not read from the repository on purpose).

import (
	"bytes"
	"crypto/sha256"
	"fmt"
	"math/big"

	specqbft "github.com/bloxapp/ssv-spec/qbft"
	spectypes "github.com/bloxapp/ssv-spec/types"
)

const (
	monTolNs       = 50_000_000
	monMarginNs    = 3_000_000_000
	monQuickNs     = 2_000_000_000
	monSlowNs      = 120_000_000_000
	monQuickRounds = 8
	monSubnets     = 128
)

func monMaxRound(role spectypes.BeaconRole) (uint64, bool) {
	switch role {
	case spectypes.BNRoleAttester, spectypes.BNRoleAggregator:
		return 12, true
	case spectypes.BNRoleProposer, spectypes.BNRoleSyncCommittee, spectypes.BNRoleSyncCommitteeContribution:
		return 6, true
	}
	return 0, false
}

func monTTL(role spectypes.BeaconRole) (uint64, bool) {
	switch role {
	case spectypes.BNRoleAttester, spectypes.BNRoleAggregator:
		return 34, true
	case spectypes.BNRoleProposer, spectypes.BNRoleSyncCommittee, spectypes.BNRoleSyncCommitteeContribution:
		return 3, true
	}
	return 0, false
}

func monPartialTypeOK(t spectypes.PartialSigMsgType, role spectypes.BeaconRole) bool {
	switch role {
	case spectypes.BNRoleAttester, spectypes.BNRoleSyncCommittee:
		return t == spectypes.PostConsensusPartialSig
	case spectypes.BNRoleAggregator:
		return t == spectypes.PostConsensusPartialSig || t == spectypes.SelectionProofPartialSig
	case spectypes.BNRoleProposer:
		return t == spectypes.PostConsensusPartialSig || t == spectypes.RandaoPartialSig
	case spectypes.BNRoleSyncCommitteeContribution:
		return t == spectypes.PostConsensusPartialSig || t == spectypes.ContributionProofs
	case spectypes.BNRoleValidatorRegistration:
		return t == spectypes.ValidatorRegistrationPartialSig
	case spectypes.BNRoleVoluntaryExit:
		return t == spectypes.VoluntaryExitPartialSig
	}
	return false
}

type signerKey struct {
	vid    int
	role   uint64
	signer uint64
}

type roundKey struct {
	slot, round uint64
	kind        int // 0 proposal, 1 prepare, 2 commit, 3 round change, 4 decided
}

type signerHist struct {
	any         bool
	slot, round uint64 // highest (slot, round) of accepted messages (partial: (slot, 0))
	counts      map[roundKey]int
	proposal    map[[2]uint64][]byte
}

type monitor struct {
	u    *universe
	hist map[signerKey]*signerHist
}

func newMonitor(u *universe) *monitor { return &monitor{u: u, hist: map[signerKey]*signerHist{}} }

func bi(x uint64) *big.Int { return new(big.Int).SetUint64(x) }

// slotStartNs in unbounded integers
func (m *monitor) slotStartNs(slot *big.Int) *big.Int {
	s := new(big.Int).Mul(slot, big.NewInt(slotSeconds))
	s.Add(s, bi(m.u.netCfg.Beacon.MinGenesisTime()))
	return s.Mul(s, big.NewInt(1_000_000_000))
}

// c09 returns the rules an ACCEPTED input breaks.
func (m *monitor) c09(in *input, a *abstracted) []string {
	var v []string
	bad := func(format string, x ...any) { v = append(v, fmt.Sprintf(format, x...)) }
	if a.ssvMsg == nil {
		bad("accepted although the pubsub payload does not decode")
		return v
	}
	id := a.ssvMsg.MsgID
	role := id.GetRoleType()
	// known, active, non-liquidated validator
	if a.val == nil {
		bad("accepted for an unknown validator")
		return v
	}
	if a.val.liquidated || !a.val.hasMeta || !a.val.attesting {
		bad("accepted for a validator that is liquidated=%v hasMetadata=%v attesting=%v", a.val.liquidated, a.val.hasMeta, a.val.attesting)
	}
	if !bytes.Equal(id[0:4], m.u.netCfg.Domain[:]) {
		bad("accepted with a foreign domain")
	}
	if in.p2p {
		prefix := uint64(id[4])<<32 | uint64(id[5])<<24 | uint64(id[6])<<16 | uint64(id[7])<<8 | uint64(id[8])
		if topicNumber(in.topic) != fmt.Sprint(prefix%monSubnets) {
			bad("accepted on topic %q, validator's subnet is %d", in.topic, prefix%monSubnets)
		}
		if a.active && !(len(in.data) >= 264 && a.opFound && a.opKeyOK && a.rsaOK) {
			bad("accepted in the signed era without a valid operator signature over the payload (operator %d found=%v key=%v sig=%v)", a.opID, a.opFound, a.opKeyOK, a.rsaOK)
		}
	}
	inCommittee := func(s uint64) bool {
		for _, c := range a.val.committee {
			if c == s {
				return true
			}
		}
		return false
	}
	n := len(a.val.committee)
	switch {
	case a.cons != nil:
		sm := a.cons
		signers := sm.Signers
		ty := sm.Message.MsgType
		if ty > specqbft.RoundChangeMsgType {
			bad("accepted with unknown QBFT type %d", uint64(ty))
		}
		if len(sm.Signature) != 96 || allZero(sm.Signature) {
			bad("accepted with a malformed signature")
		}
		for i, s := range signers {
			if s == 0 {
				bad("signer 0 accepted")
			}
			if !inCommittee(s) {
				bad("signer %d is not a committee member", s)
			}
			if i > 0 && signers[i-1] >= s {
				bad("signers not sorted and distinct: %v", signers)
			}
		}
		if len(signers) == 0 {
			bad("accepted without signers")
			return v
		}
		if len(signers) != 1 && !(ty == specqbft.CommitMsgType && uint64(len(signers)) >= a.val.share.Quorum && len(signers) <= n) {
			bad("%d signers on a message that is not a quorum-sized commit (quorum %d, committee %d)", len(signers), a.val.share.Quorum, n)
		}
		height, round := uint64(sm.Message.Height), uint64(sm.Message.Round)
		if ty == specqbft.ProposalMsgType && len(signers) == 1 {
			idx := new(big.Int).Add(bi(height), bi(round))
			idx.Sub(idx, big.NewInt(1))
			if idx.Sign() < 0 {
				bad("proposal with round 0 accepted")
			} else {
				idx.Mod(idx, big.NewInt(int64(n)))
				if leader := a.val.committee[idx.Int64()]; leader != signers[0] {
					bad("proposal from %d, leader of height %d round %d is %d", signers[0], height, round, leader)
				}
			}
		}
		decided := ty == specqbft.CommitMsgType && len(signers) > 1
		carries := (ty == specqbft.ProposalMsgType || ty == specqbft.RoundChangeMsgType || decided) && len(sm.FullData) != 0
		if carries && sha256.Sum256(sm.FullData) != sm.Message.Root {
			bad("full data does not hash to the root")
		}
		// slot window
		ttl, okTTL := monTTL(role)
		maxRound, okMR := monMaxRound(role)
		if !okTTL || !okMR {
			bad("consensus message accepted for role %d", uint64(role))
			return v
		}
		cur := bi(m.u.estSlot(in.sec))
		recvNs := new(big.Int).Mul(big.NewInt(in.sec), big.NewInt(1_000_000_000))
		recvNs.Add(recvNs, big.NewInt(in.nsec))
		start := m.slotStartNs(bi(height))
		endCur := m.slotStartNs(new(big.Int).Add(cur, big.NewInt(1)))
		if start.Cmp(new(big.Int).Sub(endCur, big.NewInt(monTolNs))) > 0 {
			bad("slot %d accepted although it has not started (current slot %s)", height, cur)
		}
		deadline := m.slotStartNs(new(big.Int).Add(bi(height), bi(ttl)))
		deadline.Add(deadline, big.NewInt(monMarginNs+monTolNs))
		if m.slotStartNs(cur).Cmp(deadline) > 0 {
			bad("slot %d accepted although it expired (current slot %s, ttl %d)", height, cur, ttl)
		}
		// round window
		if round < 1 || round > maxRound {
			bad("round %d outside [1,%d] of role %d", round, maxRound, uint64(role))
		}
		since := new(big.Int).Sub(recvNs, start)
		est := big.NewInt(1)
		if since.Sign() > 0 {
			q := new(big.Int).Div(since, big.NewInt(monQuickNs))
			q.Add(q, big.NewInt(1))
			if q.Cmp(big.NewInt(monQuickRounds)) <= 0 {
				est = q
			} else {
				s := new(big.Int).Sub(since, big.NewInt(monQuickRounds*monQuickNs))
				s.Div(s, big.NewInt(monSlowNs))
				est = s.Add(s, big.NewInt(monQuickRounds+1))
			}
		}
		if bi(round).Cmp(new(big.Int).Add(est, big.NewInt(1))) > 0 {
			bad("round %d is more than one ahead of the estimated round %s", round, est)
		}
		// per-signer limits over the accepted history
		kind := int(ty)
		limit := 1
		if decided {
			kind = 4
			limit = n * ((n-1)/3 + 1)
		}
		for _, s := range signers {
			k := signerKey{a.val.vid, uint64(role), s}
			h := m.hist[k]
			if h == nil {
				h = &signerHist{counts: map[roundKey]int{}, proposal: map[[2]uint64][]byte{}}
				m.hist[k] = h
			}
			if h.any && (height < h.slot || (height == h.slot && round < h.round)) {
				bad("signer %d went back from (slot %d, round %d) to (slot %d, round %d)", s, h.slot, h.round, height, round)
			}
			rk := roundKey{height, round, kind}
			if h.counts[rk] >= limit {
				bad("signer %d: message %d of kind %d in (slot %d, round %d), limit %d", s, h.counts[rk]+1, kind, height, round, limit)
			}
			h.counts[rk]++
			if ty == specqbft.ProposalMsgType {
				if prev, ok := h.proposal[[2]uint64{height, round}]; ok && !bytes.Equal(prev, sm.FullData) {
					bad("signer %d: second proposal with different data in (slot %d, round %d)", s, height, round)
				}
				h.proposal[[2]uint64{height, round}] = append([]byte{}, sm.FullData...)
			}
			if !h.any || height > h.slot || (height == h.slot && round > h.round) {
				h.any, h.slot, h.round = true, height, round
			}
		}
	case a.part != nil:
		pm := a.part
		if pm.Signer == 0 || !inCommittee(pm.Signer) {
			bad("partial signature message from %d, not a committee member", pm.Signer)
		}
		if !monPartialTypeOK(pm.Message.Type, role) {
			bad("partial signature type %d accepted for role %d", uint64(pm.Message.Type), uint64(role))
		}
		if len(pm.Signature) != 96 || allZero(pm.Signature) {
			bad("accepted with a malformed signature")
		}
		if len(pm.Message.Messages) == 0 {
			bad("accepted without partial signatures")
		}
		seen := map[[32]byte]bool{}
		for _, x := range pm.Message.Messages {
			if x.Signer != pm.Signer {
				bad("inner signer %d differs from %d", x.Signer, pm.Signer)
			}
			if seen[x.SigningRoot] {
				bad("duplicated signing root")
			}
			seen[x.SigningRoot] = true
			if len(x.PartialSignature) != 96 || allZero(x.PartialSignature) {
				bad("malformed partial signature")
			}
		}
		k := signerKey{a.val.vid, uint64(role), pm.Signer}
		h := m.hist[k]
		if h == nil {
			h = &signerHist{counts: map[roundKey]int{}, proposal: map[[2]uint64][]byte{}}
			m.hist[k] = h
		}
		slot := uint64(pm.Message.Slot)
		if h.any && slot < h.slot {
			bad("signer %d went back from slot %d to slot %d", pm.Signer, h.slot, slot)
		}
		if !h.any || slot > h.slot {
			h.any, h.slot, h.round = true, slot, 0
		}
	default:
		bad("accepted a message that is neither a consensus nor a partial signature message (type %d)", uint64(a.ssvMsg.MsgType))
	}
	return v
}
