package main

// The decode mode (C08).  Hand-written decoders are run against their model (DSSV / SUBNETS /
// SHARED / SNI lines carry an abstract input the model also evaluates).  Generated decoders (SSZ,
// JSON, libp2p envelopes) and the whole of validateP2PMessage on raw bytes are fuzzed under
// recover(), a per-call deadline and an allocation bound: monitor only, this is testing.

import (
	"github.com/ethereum/go-ethereum/p2p/enr"
	"github.com/ethereum/go-ethereum/rlp"

	crand "crypto/rand"
	"encoding/base64"
	"encoding/json"
	"fmt"
	"runtime"
	"runtime/debug"
	"strconv"
	"strings"
	"syscall"
	"time"

	specqbft "github.com/bloxapp/ssv-spec/qbft"
	spectypes "github.com/bloxapp/ssv-spec/types"
	pubsub "github.com/libp2p/go-libp2p-pubsub"
	pspb "github.com/libp2p/go-libp2p-pubsub/pb"
	libp2pcrypto "github.com/libp2p/go-libp2p/core/crypto"

	"github.com/bloxapp/ssv/message/validation"
	"github.com/bloxapp/ssv/network/commons"
	"github.com/bloxapp/ssv/network/records"
	ssvmessage "github.com/bloxapp/ssv/protocol/v2/message"
	"github.com/bloxapp/ssv/protocol/v2/ssv/queue"

	"verifharness/hx"
)

const (
	callDeadline   = 5 * time.Second
	allocPerCall   = 4 << 20 // bytes a single decode call may allocate beyond 64 x its input
	memoryLimit    = 2 << 30
	addressSpaceMB = 16 << 10
)

func limitResources() {
	debug.SetMemoryLimit(memoryLimit)
	lim := syscall.Rlimit{Cur: addressSpaceMB << 20, Max: addressSpaceMB << 20}
	_ = syscall.Setrlimit(syscall.RLIMIT_AS, &lim)
}

type target struct {
	name string
	run  func(b []byte)
}

// guarded runs f(b) under recover() with a deadline; returns "" or the violation text.
func guarded(f func([]byte), b []byte) string {
	done := make(chan string, 1)
	go func() {
		defer func() {
			if r := recover(); r != nil {
				done <- fmt.Sprintf("panic: %v", r)
			}
		}()
		f(b)
		done <- ""
	}()
	t := time.NewTimer(callDeadline)
	defer t.Stop()
	select {
	case v := <-done:
		return v
	case <-t.C:
		return fmt.Sprintf("hang: no result after %v", callDeadline)
	}
}

func decodeTargets(u *universe, mySubnets records.Subnets) []target {
	var v validation.MessageValidator
	if u != nil {
		v = u.newValidator()
	}
	ts := []target{
		{"DecodeSignedSSVMessage", func(b []byte) { _, _, _, _ = commons.DecodeSignedSSVMessage(b) }},
		{"DecodeNetworkMsg", func(b []byte) { _, _ = commons.DecodeNetworkMsg(b) }},
		{"DecodeSSVMessage-consensus", func(b []byte) {
			m, err := queue.DecodeSSVMessage(&spectypes.SSVMessage{MsgType: spectypes.SSVConsensusMsgType, Data: b})
			if err == nil {
				sm := m.Body.(*specqbft.SignedMessage)
				_, _ = sm.Message.GetPrepareJustifications()
				_, _ = sm.Message.GetRoundChangeJustifications()
				_ = sm.Validate()
			}
		}},
		{"DecodeSSVMessage-partial", func(b []byte) {
			m, err := queue.DecodeSSVMessage(&spectypes.SSVMessage{MsgType: spectypes.SSVPartialSignatureMsgType, Data: b})
			if err == nil {
				_ = m.Body.(*spectypes.SignedPartialSignatureMessage).Validate()
			}
		}},
		{"DecodeSSVMessage-event", func(b []byte) {
			_, _ = queue.DecodeSSVMessage(&spectypes.SSVMessage{MsgType: ssvmessage.SSVEventMsgType, Data: b})
		}},
		{"NodeInfo.UnmarshalRecord", func(b []byte) {
			ni := &records.NodeInfo{}
			if ni.UnmarshalRecord(b) == nil && ni.Metadata != nil {
				// what handshaker.updateNodeSubnets and connHandler.sharesEnoughSubnets do with it
				if s, err := (records.Subnets{}).FromString(ni.Metadata.Subnets); err == nil {
					_ = s.String()
					_ = records.SharedSubnets(mySubnets, s, 1)
					_ = records.SharedSubnets(s, mySubnets, len(mySubnets))
					_ = records.DiffSubnets(mySubnets, s)
				}
			}
		}},
		{"SignedNodeInfo.UnmarshalRecord", func(b []byte) { _ = (&records.SignedNodeInfo{}).UnmarshalRecord(b) }},
		{"NodeInfo.Consume", func(b []byte) { _ = (&records.NodeInfo{}).Consume(b) }},
		{"SignedNodeInfo.Consume", func(b []byte) { _ = (&records.SignedNodeInfo{}).Consume(b) }},
		{"NodeMetadata.Decode", func(b []byte) { _ = (&records.NodeMetadata{}).Decode(b) }},
		{"ENR-entry-domaintype", func(b []byte) { _, _ = records.GetDomainTypeEntry(enrWith("domaintype", b)) }},
		{"ENR-entry-subnets", func(b []byte) {
			if sn, err := records.GetSubnetsEntry(enrWith("subnets", b)); err == nil {
				_ = records.SharedSubnets(mySubnets, sn, 1)
				_ = records.SharedSubnets(sn, mySubnets, 0)
			}
		}},
		{"Subnets.FromString", func(b []byte) {
			if s, err := (records.Subnets{}).FromString(string(b)); err == nil {
				_ = s.String()
				_ = records.SharedSubnets(mySubnets, s, 1)
				_ = records.SharedSubnets(s, mySubnets, 0)
			}
		}},
	}
	if v != nil {
		recv := time.Unix(u.slotStartUnix(baseEpoch*slotsInEpoch+3), 500)
		recvSigned := time.Unix(u.slotStartUnix(signedEpoch*slotsInEpoch+3), 500)
		topic := "ssv.v2.14"
		ts = append(ts,
			target{"validateP2PMessage", func(b []byte) {
				_, _, _ = validation.VerifValidateP2PMessage(v, &pubsub.Message{Message: &pspb.Message{Data: b, Topic: &topic}}, recv)
			}},
			target{"validateP2PMessage-signed-era", func(b []byte) {
				_, _, _ = validation.VerifValidateP2PMessage(v, &pubsub.Message{Message: &pspb.Message{Data: b, Topic: &topic}}, recvSigned)
			}},
			target{"ValidatePubsubMessage", func(b []byte) {
				_ = v.ValidatePubsubMessage(nil, "", &pubsub.Message{Message: &pspb.Message{Data: b, Topic: &topic}})
			}})
	}
	return ts
}

// seedsFor: valid encodings the mutator starts from.
func decodeSeeds(u *universe, r *hx.Rand) map[string][][]byte {
	seeds := map[string][][]byte{}
	add := func(k string, b []byte) { seeds[k] = append(seeds[k], b) }
	for i := 0; i < 12; i++ {
		sc := newScene(u, r)
		sc.p2p, sc.signed = true, i%2 == 0
		for _, kind := range []string{"proposal2p", "prepare", "decided", "roundchange-p", "post"} {
			d := sc.honest(kind)
			in := d.build()
			add("p2p", in.data)
			direct := *d
			direct.p2p = false
			msg := direct.build().msg
			if d.cons != nil {
				add("cons", msg.Data)
			} else {
				add("part", msg.Data)
			}
			enc, _ := commons.EncodeNetworkMsg(msg)
			add("ssv", enc)
		}
	}
	add("event", []byte(`{"Type":1,"Data":"eyJEdXR5Ijp7IlR5cGUiOjB9fQ=="}`))
	add("event", []byte(`{"Type":0,"Data":"eyJIZWlnaHQiOjF9"}`))
	ni := &records.NodeInfo{NetworkID: "0x00000302", Metadata: &records.NodeMetadata{NodeVersion: "v1", Subnets: records.AllSubnets}}
	raw, _ := ni.MarshalRecord()
	add("nodeinfo", raw)
	add("nodeinfo", []byte(`{"Entries":["","0x00000302","{\"NodeVersion\":\"v\",\"Subnets\":\"00\"}"]}`))
	sni := &records.SignedNodeInfo{NodeInfo: ni, HandshakeData: records.HandshakeData{SenderPeerID: "a", RecipientPeerID: "b", Timestamp: time.Unix(1700000000, 0), SenderPublicKey: []byte("pk")}, Signature: []byte{1, 2, 3}}
	raw2, _ := sni.MarshalRecord()
	add("signednodeinfo", raw2)
	if priv, _, err := libp2pcrypto.GenerateEd25519Key(crand.Reader); err == nil {
		if sealed, err := ni.Seal(priv); err == nil {
			add("nodeinfo-sealed", sealed)
		}
		if sealed, err := sni.Seal(priv); err == nil {
			add("signednodeinfo-sealed", sealed)
		}
	}
	meta, _ := ni.Metadata.Encode()
	add("metadata", meta)
	for _, s := range []string{records.AllSubnets, records.ZeroSubnets, "0x" + records.AllSubnets, "00", "f", "", "ffffffffffffffffffffffffffffffffff", "0g", "FFfF"} {
		add("subnets", []byte(s))
	}
	for _, l := range []int{0, 1, 2, 3, 4, 5, 16, 17, 60} {
		enc, _ := rlp.EncodeToBytes(r.Bytes(l))
		add("enr-domaintype", enc)
		add("enr-subnets", enc)
	}
	lst, _ := rlp.EncodeToBytes([][]byte{{1}, {2, 3}})
	add("enr-domaintype", lst)
	add("enr-subnets", lst)
	return seeds
}

var seedKindOf = map[string]string{
	"DecodeSignedSSVMessage": "p2p", "DecodeNetworkMsg": "ssv", "DecodeSSVMessage-consensus": "cons",
	"DecodeSSVMessage-partial": "part", "DecodeSSVMessage-event": "event", "NodeInfo.UnmarshalRecord": "nodeinfo",
	"SignedNodeInfo.UnmarshalRecord": "signednodeinfo", "NodeInfo.Consume": "nodeinfo-sealed", "SignedNodeInfo.Consume": "signednodeinfo-sealed",
	"NodeMetadata.Decode": "metadata", "Subnets.FromString": "subnets", "ENR-entry-domaintype": "enr-domaintype", "ENR-entry-subnets": "enr-subnets", "validateP2PMessage": "p2p",
	"validateP2PMessage-signed-era": "p2p", "ValidatePubsubMessage": "p2p",
}

func mutateBytes(r *hx.Rand, seeds [][]byte) []byte {
	if len(seeds) == 0 || r.Chance(1, 6) {
		return r.Bytes(r.Intn(hx.Pick(r, 4, 40, 300, 2000)))
	}
	b := append([]byte{}, seeds[r.Intn(len(seeds))]...)
	for k := 1 + r.Intn(3); k > 0 && len(b) > 0; k-- {
		switch r.Intn(8) {
		case 0:
			b[r.Intn(len(b))] ^= 1 << uint(r.Intn(8))
		case 1:
			b[r.Intn(len(b))] = byte(r.Uint64())
		case 2:
			b = b[:r.Intn(len(b)+1)]
		case 3: // overwrite a 4-byte little-endian field (SSZ offsets / lengths) with an extreme value
			if len(b) >= 4 {
				p := r.Intn(len(b) - 3)
				v := hx.Pick(r, uint32(0), 1, 3, 4, uint32(len(b)), uint32(len(b))+1, 1<<31, 1<<32-1, uint32(r.Uint64()))
				b[p], b[p+1], b[p+2], b[p+3] = byte(v), byte(v>>8), byte(v>>16), byte(v>>24)
			}
		case 4:
			p := r.Intn(len(b) + 1)
			b = append(b[:p], append(r.Bytes(1+r.Intn(16)), b[p:]...)...)
		case 5:
			if len(b) > 2 {
				p := r.Intn(len(b) - 1)
				q := p + 1 + r.Intn(len(b)-p-1)
				b = append(b[:p], b[q:]...)
			}
		case 6:
			b = append(b, b[r.Intn(len(b)):]...)
		case 7: // for the text formats: replace a digit / quote
			p := r.Intn(len(b))
			b[p] = hx.Pick(r, byte('"'), '9', '-', '{', '[', 0, 'x', ',')
		}
	}
	return b
}

func testSubnets() records.Subnets {
	s, _ := records.Subnets{}.FromString("00000000000000000000000000000100") // only subnet 112
	return s
}

func runDecode(out *hx.Out, prop string, seed uint64, n int) {
	limitResources()
	u := newUniverse()
	mine := testSubnets()
	targets := decodeTargets(u, mine)
	seeds := decodeSeeds(u, hx.NewRand(seed, "decode-seeds", 0))
	s := newSession(u, out, prop)

	// 1. hand-written decoders against their model
	handWrittenCases(s, hx.NewRand(seed, "handwritten", 0), n)

	// 1b. the real metrics reporter behind ValidatePubsubMessage: label values from the message
	metricsCase(s, 100000)

	// 1c. what rejected messages of made-up validators leave behind
	strangersCase(s, 6000)

	// 2. fuzz-style runs: one case per target, n byte strings each
	for ti, t := range targets {
		out.Case("prop=%s fuzz target=%s", prop, t.name)
		out.Op("FUZZ", "%s %d %d", t.name, seed, n)
		fuzzTarget(s, t, seeds[seedKindOf[t.name]], seed, n, ti)
		out.End()
	}
}

// fuzzTarget feeds n generated byte strings; allocation is checked per batch and bisected.
func fuzzTarget(s *session, t target, seeds [][]byte, seed uint64, n, ti int) {
	const batch = 256
	var ms runtime.MemStats
	var slowest time.Duration
	viol := 0
	for start := 0; start < n; start += batch {
		end := start + batch
		if end > n {
			end = n
		}
		inputs := make([][]byte, 0, end-start)
		total := 0
		for i := start; i < end; i++ {
			b := mutateBytes(hx.NewRand(seed, "fuzz-"+t.name, uint64(i)), seeds)
			inputs = append(inputs, b)
			total += len(b)
		}
		runtime.ReadMemStats(&ms)
		before := ms.TotalAlloc
		for _, b := range inputs {
			t0 := time.Now()
			if v := guarded(t.run, b); v != "" && viol < 5 {
				viol++
				s.out.Op("BYTES", "%s %s", t.name, encBytes(b))
				s.report("C08", "%s: %s", t.name, v)
			}
			if d := time.Since(t0); d > slowest {
				slowest = d
			}
		}
		runtime.ReadMemStats(&ms)
		if used := ms.TotalAlloc - before; used > uint64(len(inputs))*allocPerCall/8+uint64(total)*64 {
			// find the call(s) responsible
			for _, b := range inputs {
				runtime.ReadMemStats(&ms)
				b0 := ms.TotalAlloc
				_ = guarded(t.run, b)
				runtime.ReadMemStats(&ms)
				if one := ms.TotalAlloc - b0; one > allocPerCall+uint64(len(b))*64 && viol < 5 {
					viol++
					s.out.Op("BYTES", "%s %s", t.name, encBytes(b))
					s.report("C08", "%s: allocates %d bytes for an input of %d bytes", t.name, one, len(b))
				}
			}
		}
		s.out.Dist["fuzz_"+t.name] += len(inputs)
		s.out.Dist["fuzz_inputs"] += len(inputs)
	}
	s.out.Note("fuzz %s: %d inputs, slowest call %v", t.name, n, slowest)
}

// ---- hand-written decoders: abstract lines shared with the model ---------------------------------

func subnetsObs(str string) (line string, obs string, bits records.Subnets) {
	stripped := strings.Replace(str, "0x", "", 1)
	codes := make([]string, len(stripped))
	for i := 0; i < len(stripped); i++ {
		codes[i] = strconv.Itoa(int(stripped[i]))
	}
	line = strings.Join(codes, " ")
	var res records.Subnets
	var err error
	pan := ""
	func() {
		defer func() {
			if r := recover(); r != nil {
				pan = fmt.Sprint(r)
			}
		}()
		res, err = records.Subnets{}.FromString(str)
	}()
	switch {
	case pan != "":
		return line, "subnets panic " + pan, nil
	case err != nil:
		return line, "subnets err", nil
	}
	var sb strings.Builder
	for _, b := range res {
		sb.WriteString(strconv.Itoa(int(b)))
	}
	return line, "subnets ok " + sb.String(), res
}

func sharedObs(a, b []byte, maxLen int) (line, obs string) {
	var sb strings.Builder
	fmt.Fprintf(&sb, "%d %d", maxLen, len(a))
	for _, x := range a {
		fmt.Fprintf(&sb, " %d", x)
	}
	fmt.Fprintf(&sb, " %d", len(b))
	for _, x := range b {
		fmt.Fprintf(&sb, " %d", x)
	}
	var res []int
	pan := ""
	func() {
		defer func() {
			if r := recover(); r != nil {
				pan = fmt.Sprint(r)
			}
		}()
		res = records.SharedSubnets(a, b, maxLen)
	}()
	if pan != "" {
		return sb.String(), "shared panic " + pan
	}
	strs := make([]string, len(res))
	for i, x := range res {
		strs[i] = strconv.Itoa(x)
	}
	return sb.String(), "shared ok " + strings.Join(strs, ",")
}

func (s *session) emitObs(obs string) {
	if strings.Contains(obs, " panic ") {
		f := strings.SplitN(obs, " panic ", 2)
		s.out.Obs("%s panic", f[0])
		s.report("C08", "panic: %s: %s", f[0], f[1])
		return
	}
	s.out.Obs("%s", obs)
}

func (s *session) doSubnets(str string) records.Subnets {
	line, obs, bits := subnetsObs(str)
	s.out.Note("FromString(%q)", str)
	s.out.Op("SUBNETS", "%s", line)
	s.emitObs(obs)
	return bits
}

func (s *session) doShared(a, b []byte, maxLen int) {
	line, obs := sharedObs(a, b, maxLen)
	s.out.Op("SHARED", "%s", line)
	s.emitObs(obs)
}

func (s *session) doDSSV(n int) {
	buf := make([]byte, n)
	for i := range buf {
		buf[i] = byte(i)
	}
	obs := ""
	func() {
		defer func() {
			if r := recover(); r != nil {
				obs = fmt.Sprintf("dssv panic %v", r)
			}
		}()
		m, _, sig, err := commons.DecodeSignedSSVMessage(buf)
		if err != nil {
			obs = "dssv err"
		} else {
			obs = fmt.Sprintf("dssv ok %d 8 %d", len(m), len(sig))
		}
	}()
	s.out.Op("DSSV", "%d", n)
	s.emitObs(obs)
}

// enrWith returns a node record carrying the given raw RLP value under the key, as a peer that signs its own
// record can publish it.
func enrWith(key string, raw []byte) *enr.Record {
	var rec enr.Record
	rec.Set(enr.WithEntry(key, rlp.RawValue(raw)))
	return &rec
}

// doDomainType: the "domaintype" entry of a peer's node record holding the byte string bs.
func (s *session) doDomainType(bs []byte) {
	raw, _ := rlp.EncodeToBytes(bs)
	obs := ""
	func() {
		defer func() {
			if r := recover(); r != nil {
				obs = fmt.Sprintf("domaintype panic %v", r)
			}
		}()
		dt, err := records.GetDomainTypeEntry(enrWith("domaintype", raw))
		if err != nil {
			obs = "domaintype err"
		} else {
			obs = fmt.Sprintf("domaintype ok %d,%d,%d,%d", dt[0], dt[1], dt[2], dt[3])
		}
	}()
	var sb strings.Builder
	fmt.Fprintf(&sb, "%d", len(bs))
	for _, b := range bs {
		fmt.Fprintf(&sb, " %d", b)
	}
	s.out.Op("DOMAINTYPE", "%s", sb.String())
	s.emitObs(obs)
}

// doSNI: a JSON document with k entries whose fields are individually valid or not.
func (s *session) doSNI(k int, ok [5]bool) {
	entries := make([]string, k)
	val := func(i int, good, bad string) {
		if i < k {
			if ok[map[int]int{0: 0, 1: 1, 2: 2, 4: 3, 5: 4}[i]] {
				entries[i] = good
			} else {
				entries[i] = bad
			}
		}
	}
	val(0, base64.StdEncoding.EncodeToString([]byte("peer-a")), "***")
	val(1, base64.StdEncoding.EncodeToString([]byte("peer-b")), "?")
	val(2, "1700000000", "17e9")
	if k > 3 {
		entries[3] = "pubkey"
	}
	val(4, base64.StdEncoding.EncodeToString([]byte{1, 2, 3}), "not base64!")
	val(5, `{"Entries":["","0x00000302"]}`, `{"Entries":[""]}`)
	for i := 6; i < k; i++ {
		entries[i] = "extra"
	}
	doc, _ := json.Marshal(struct{ Entries []string }{entries})
	obs := ""
	func() {
		defer func() {
			if r := recover(); r != nil {
				obs = fmt.Sprintf("sni panic %v", r)
			}
		}()
		if err := (&records.SignedNodeInfo{}).UnmarshalRecord(doc); err != nil {
			obs = "sni err"
		} else {
			obs = "sni ok"
		}
	}()
	s.out.Op("SNI", "%d %d %d %d %d %d", k, b2i(ok[0]), b2i(ok[1]), b2i(ok[2]), b2i(ok[3]), b2i(ok[4]))
	s.emitObs(obs)
}

func handWrittenCases(s *session, r *hx.Rand, n int) {
	mine := testSubnets()
	all, _ := records.Subnets{}.FromString(records.AllSubnets)
	s.out.Case("prop=%s handwritten DecodeSignedSSVMessage", s.prop)
	for _, k := range []int{0, 1, 255, 256, 257, 263, 264, 265, 300, 1000} {
		s.doDSSV(k)
	}
	s.out.End()
	s.out.Case("prop=%s handwritten SignedNodeInfo post-JSON", s.prop)
	for k := 0; k <= 8; k++ {
		for m := 0; m < 32; m++ {
			if k < 6 && m > 0 {
				continue
			}
			s.doSNI(k, [5]bool{m&1 == 0, m&2 == 0, m&4 == 0, m&8 == 0, m&16 == 0})
		}
	}
	s.out.End()
	s.out.Case("prop=%s handwritten node record entry domaintype", s.prop)
	for l := 0; l <= 9; l++ {
		bs := make([]byte, l)
		for j := range bs {
			bs[j] = byte(r.Uint64())
		}
		s.doDomainType(bs)
	}
	s.doDomainType(r.Bytes(64))
	s.out.End()
	fixed := []string{records.AllSubnets, records.ZeroSubnets, "0x" + records.AllSubnets, "", "0", "00", "01", "f", "fF", "0g", "g0", "0x", "0x0x11",
		"ffffffffffffffffffffffffffffffffff", "00000000000000000000000000000100", "\x80\x81", "1\xff"}
	cnt := n / 20
	if cnt < 40 {
		cnt = 40
	}
	for i := 0; i < len(fixed)+cnt; i++ {
		var str string
		if i < len(fixed) {
			str = fixed[i]
		} else {
			l := hx.Pick(r, 0, 1, 2, 3, 8, 31, 32, 33, 40)
			bs := make([]byte, l)
			for j := range bs {
				if r.Chance(1, 25) {
					bs[j] = byte(r.Uint64())
				} else {
					bs[j] = "0123456789abcdefABCDEF"[r.Intn(22)]
				}
			}
			str = string(bs)
			if r.Chance(1, 5) {
				str = "0x" + str
			}
		}
		s.out.Case("prop=%s handwritten subnets", s.prop)
		bits := s.doSubnets(str)
		if bits != nil {
			// the uses of a peer's subnets in handshaker / conn handler / conn manager
			s.doShared(mine, bits, 1)
			s.doShared(all, bits, 0)
			s.doShared(bits, mine, len(mine))
		}
		s.out.End()
	}
}

// replayDecoderLine re-runs one decoder line of a corpus / replay file.
func replayDecoderLine(out *hx.Out, prop string, f []string) {
	s := &session{out: out, prop: prop}
	atoi := func(x string) int { v, _ := strconv.Atoi(x); return v }
	switch f[0] {
	case "DSSV":
		if len(f) > 1 {
			s.doDSSV(atoi(f[1]))
		}
	case "SUBNETS":
		b := make([]byte, 0, len(f)-1)
		for _, c := range f[1:] {
			b = append(b, byte(atoi(c)))
		}
		s.doSubnets(string(b))
	case "SHARED":
		if len(f) < 3 {
			return
		}
		ml, ka := atoi(f[1]), atoi(f[2])
		if len(f) < 4+ka {
			return
		}
		a := make([]byte, ka)
		for i := range a {
			a[i] = byte(atoi(f[3+i]))
		}
		kb := atoi(f[3+ka])
		if len(f) < 4+ka+kb {
			return
		}
		b := make([]byte, kb)
		for i := range b {
			b[i] = byte(atoi(f[4+ka+i]))
		}
		s.doShared(a, b, ml)
	case "DOMAINTYPE":
		k := atoi(f[1])
		bs := make([]byte, k)
		for i := 0; i < k && 2+i < len(f); i++ {
			bs[i] = byte(atoi(f[2+i]))
		}
		s.doDomainType(bs)
	case "SNI":
		if len(f) == 7 {
			s.doSNI(atoi(f[1]), [5]bool{f[2] == "1", f[3] == "1", f[4] == "1", f[5] == "1", f[6] == "1"})
		}
	case "BYTES":
		if len(f) < 3 {
			return
		}
		b, err := decBytes(f[2])
		if err != nil {
			return
		}
		out.Op("BYTES", "%s %s", f[1], f[2])
		var u *universe
		if strings.HasPrefix(f[1], "validate") || strings.HasPrefix(f[1], "Validate") {
			u = newUniverse()
		}
		for _, t := range decodeTargets(u, testSubnets()) {
			if t.name == f[1] {
				if v := guarded(t.run, b); v != "" {
					s.report("C08", "%s: %s", t.name, v)
				}
			}
		}
	}
}
