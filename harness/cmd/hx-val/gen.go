package main

// Generators for the validate mode: honest messages built with the spec's testing key sets, the
// table of single rule-breaking mutations, adversarial field values and histories.

import (
	"bytes"
	"crypto/sha256"
	"encoding/binary"
	"fmt"

	"github.com/attestantio/go-eth2-client/spec/phase0"
	specqbft "github.com/bloxapp/ssv-spec/qbft"
	spectypes "github.com/bloxapp/ssv-spec/types"
	spectestingutils "github.com/bloxapp/ssv-spec/types/testingutils"
	"github.com/herumi/bls-eth-go-binary/bls"

	"github.com/bloxapp/ssv/network/commons"
	ssvmessage "github.com/bloxapp/ssv/protocol/v2/message"

	"verifharness/hx"
)

// draft is a message under construction; build() turns it into an input.
type draft struct {
	u       *universe
	val     *valInfo // nil: pk is used as is
	pk      []byte
	domain  [4]byte
	role    uint32
	msgType uint64
	cons    *specqbft.SignedMessage
	part    *spectypes.SignedPartialSignatureMessage
	data    []byte // overrides the encoding of cons / part when dataSet
	dataSet bool

	p2p     bool
	topic   string
	signed  bool   // wrap in the signed envelope
	opID    uint64 // operator that signs the envelope
	badSig  bool   // flip a bit of the RSA signature
	p2pData []byte // overrides pMsg.Data when p2pSet
	p2pSet  bool

	sec, nsec int64
	note      string
}

func (d *draft) msgID() spectypes.MessageID {
	id := spectypes.MessageID{}
	copy(id[0:4], d.domain[:])
	copy(id[4:52], d.pk)
	binary.LittleEndian.PutUint32(id[52:56], d.role)
	return id
}

func (d *draft) build() *input {
	data := d.data
	if !d.dataSet {
		var err error
		switch {
		case d.cons != nil:
			data, err = d.cons.Encode()
		case d.part != nil:
			data, err = d.part.Encode()
		}
		if err != nil {
			// not expressible as bytes: the wire can only carry something that fails to decode
			data = []byte{0xff, 0xfe, 0xfd, 0xfc}
			d.note += " unencodable"
		}
	}
	msg := &spectypes.SSVMessage{MsgType: spectypes.MsgType(d.msgType), MsgID: d.msgID(), Data: data}
	if !d.p2p {
		return &input{sec: d.sec, nsec: d.nsec, msg: msg}
	}
	raw := d.p2pData
	if !d.p2pSet {
		enc, err := commons.EncodeNetworkMsg(msg)
		if err != nil {
			enc = []byte{1, 2, 3}
			d.note += " unencodable-ssv"
		}
		raw = enc
		if d.signed {
			var sig []byte
			if op, ok := d.u.operators[d.opID]; ok && op.priv != nil {
				sig, _ = op.priv.Sign(enc)
			} else {
				sig, _ = d.u.operators[1].priv.Sign(enc) // a real signature, of somebody else
			}
			if d.badSig {
				sig[17] ^= 0x40
			}
			raw = commons.EncodeSignedSSVMessage(enc, d.opID, sig)
		}
	}
	return &input{p2p: true, sec: d.sec, nsec: d.nsec, topic: d.topic, data: raw}
}

// ---- honest messages ----------------------------------------------------------------------------

type scene struct {
	u      *universe
	r      *hx.Rand
	val    *valInfo
	role   spectypes.BeaconRole
	slot   uint64
	signed bool // era
	p2p    bool
	value  []byte // full data of the honest proposal
}

var consensusRoles = []spectypes.BeaconRole{spectypes.BNRoleAttester, spectypes.BNRoleAggregator, spectypes.BNRoleProposer,
	spectypes.BNRoleSyncCommittee, spectypes.BNRoleSyncCommitteeContribution}
var allRoles = append(append([]spectypes.BeaconRole{}, consensusRoles...), spectypes.BNRoleValidatorRegistration, spectypes.BNRoleVoluntaryExit)

func (u *universe) goodVals() []*valInfo {
	return []*valInfo{u.vals[0], u.vals[1], u.vals[2], u.vals[3], u.vals[7], u.vals[8]}
}

func newScene(u *universe, r *hx.Rand) *scene {
	sc := &scene{u: u, r: r}
	sc.val = hx.Pick(r, u.goodVals()...)
	sc.role = hx.Pick(r, consensusRoles...)
	sc.signed = r.Chance(1, 3)
	sc.p2p = sc.signed || r.Chance(1, 2)
	ep := uint64(baseEpoch)
	if sc.signed {
		ep = signedEpoch
	}
	sc.slot = ep*slotsInEpoch + uint64(r.Intn(20))
	// roles with duties: pick a slot where the duty store has the duty
	if sc.role == spectypes.BNRoleProposer {
		for (sc.slot+uint64(sc.val.index))%2 != 0 {
			sc.slot++
		}
	}
	if (sc.role == spectypes.BNRoleSyncCommittee || sc.role == spectypes.BNRoleSyncCommitteeContribution) && sc.val.index%2 == 0 {
		sc.val = u.vals[0] // index 101 has the sync committee duty
	}
	sc.value = append([]byte("value-"), r.Bytes(24)...)
	return sc
}

func (sc *scene) n() int { return len(sc.val.committee) }

func (sc *scene) leaderPos(height, round uint64) int {
	return int((height+round-1)%uint64(sc.n())) + 1
}

func (sc *scene) identifier() []byte {
	id := spectypes.NewMsgID(sc.u.netCfg.Domain, sc.val.pk, sc.role)
	return id[:]
}

func (sc *scene) sign(pos int, m *specqbft.Message, fullData []byte) *specqbft.SignedMessage {
	sm := spectestingutils.SignQBFTMsg(sc.val.ks.Shares[uint64(pos)], sc.val.committee[pos-1], m)
	sm.FullData = fullData
	return sm
}

func (sc *scene) multiSign(positions []int, m *specqbft.Message, fullData []byte) *specqbft.SignedMessage {
	var sks []*bls.SecretKey
	var ids []spectypes.OperatorID
	for _, p := range positions {
		sks = append(sks, sc.val.ks.Shares[uint64(p)])
		ids = append(ids, sc.val.committee[p-1])
	}
	sm := spectestingutils.MultiSignQBFTMsg(sks, ids, m)
	sm.FullData = fullData
	return sm
}

func (sc *scene) message(ty specqbft.MessageType, round uint64, root [32]byte) *specqbft.Message {
	return &specqbft.Message{MsgType: ty, Height: specqbft.Height(sc.slot), Round: specqbft.Round(round), Identifier: sc.identifier(), Root: root}
}

func (sc *scene) quorumPositions(k int) []int {
	out := make([]int, k)
	for i := range out {
		out[i] = i + 1
	}
	return out
}

// randomQuorum: a random set of quorum (sometimes quorum+1) positions, ascending.
func (sc *scene) randomQuorum(r *hx.Rand) []int {
	k := int(sc.val.share.Quorum)
	if k < sc.n() && r.Chance(1, 4) {
		k++
	}
	in := map[int]bool{}
	for len(in) < k {
		in[1+r.Intn(sc.n())] = true
	}
	var out []int
	for p := 1; p <= sc.n(); p++ {
		if in[p] {
			out = append(out, p)
		}
	}
	return out
}

func (sc *scene) prepare(pos int, round uint64, value []byte) *specqbft.SignedMessage {
	return sc.sign(pos, sc.message(specqbft.PrepareMsgType, round, sha256.Sum256(value)), nil)
}

func (sc *scene) commit(pos int, round uint64, value []byte) *specqbft.SignedMessage {
	return sc.sign(pos, sc.message(specqbft.CommitMsgType, round, sha256.Sum256(value)), nil)
}

func (sc *scene) decided(positions []int, round uint64, value []byte) *specqbft.SignedMessage {
	return sc.multiSign(positions, sc.message(specqbft.CommitMsgType, round, sha256.Sum256(value)), value)
}

// roundChange: unprepared, or prepared in round round-1 with a quorum of prepare justifications
func (sc *scene) roundChange(pos int, round uint64, prepared bool, value []byte) *specqbft.SignedMessage {
	m := sc.message(specqbft.RoundChangeMsgType, round, [32]byte{})
	var fd []byte
	if prepared && round > 1 {
		m.Root = sha256.Sum256(value)
		m.DataRound = specqbft.Round(round - 1)
		var prepares []*specqbft.SignedMessage
		for _, p := range sc.quorumPositions(int(sc.val.share.Quorum)) {
			prepares = append(prepares, sc.prepare(p, round-1, value))
		}
		m.RoundChangeJustification = spectestingutils.MarshalJustifications(prepares)
		fd = value
	}
	return sc.sign(pos, m, fd)
}

func (sc *scene) proposal(round uint64, prepared bool, value []byte) *specqbft.SignedMessage {
	m := sc.message(specqbft.ProposalMsgType, round, sha256.Sum256(value))
	if round > 1 {
		var rcs []*specqbft.SignedMessage
		q := int(sc.val.share.Quorum)
		for i, p := range sc.quorumPositions(q) {
			rc := sc.roundChange(p, round, prepared && i == 0, value)
			rc.FullData = nil
			rcs = append(rcs, rc)
		}
		m.RoundChangeJustification = spectestingutils.MarshalJustifications(rcs)
		if prepared {
			var prepares []*specqbft.SignedMessage
			for _, p := range sc.quorumPositions(q) {
				prepares = append(prepares, sc.prepare(p, round-1, value))
			}
			m.PrepareJustification = spectestingutils.MarshalJustifications(prepares)
		}
	}
	return sc.sign(sc.leaderPos(sc.slot, round), m, value)
}

func partialTypesOf(role spectypes.BeaconRole) []spectypes.PartialSigMsgType {
	switch role {
	case spectypes.BNRoleAggregator:
		return []spectypes.PartialSigMsgType{spectypes.SelectionProofPartialSig, spectypes.PostConsensusPartialSig}
	case spectypes.BNRoleProposer:
		return []spectypes.PartialSigMsgType{spectypes.RandaoPartialSig, spectypes.PostConsensusPartialSig}
	case spectypes.BNRoleSyncCommitteeContribution:
		return []spectypes.PartialSigMsgType{spectypes.ContributionProofs, spectypes.PostConsensusPartialSig}
	case spectypes.BNRoleValidatorRegistration:
		return []spectypes.PartialSigMsgType{spectypes.ValidatorRegistrationPartialSig}
	case spectypes.BNRoleVoluntaryExit:
		return []spectypes.PartialSigMsgType{spectypes.VoluntaryExitPartialSig}
	}
	return []spectypes.PartialSigMsgType{spectypes.PostConsensusPartialSig}
}

func (sc *scene) partial(pos int, ty spectypes.PartialSigMsgType, nroots int) *spectypes.SignedPartialSignatureMessage {
	sk := sc.val.ks.Shares[uint64(pos)]
	id := sc.val.committee[pos-1]
	pm := spectypes.PartialSignatureMessages{Type: ty, Slot: phase0.Slot(sc.slot)}
	for i := 0; i < nroots; i++ {
		root := sha256.Sum256([]byte(fmt.Sprintf("root-%d-%d-%d", sc.slot, ty, i)))
		pm.Messages = append(pm.Messages, &spectypes.PartialSignatureMessage{
			PartialSignature: sk.SignByte(root[:]).Serialize(), SigningRoot: root, Signer: id})
	}
	r, _ := pm.GetRoot()
	return &spectypes.SignedPartialSignatureMessage{Message: pm, Signature: sk.SignByte(r[:]).Serialize(), Signer: id}
}

// offsetFor: a reception time inside the slot at which `round` is the estimated round
func offsetNs(round uint64) int64 {
	if round <= 1 {
		return 300_000_000
	}
	if round <= 8 {
		return int64(round-1)*2_000_000_000 + 300_000_000
	}
	return 16_000_000_000 + int64(round-9)*120_000_000_000 + 300_000_000
}

func (sc *scene) draftAt(round uint64) *draft {
	d := &draft{u: sc.u, val: sc.val, pk: sc.val.pk, domain: sc.u.netCfg.Domain, role: uint32(sc.role), p2p: sc.p2p, signed: sc.signed}
	prefix := uint64(d.pk[0])<<32 | uint64(d.pk[1])<<24 | uint64(d.pk[2])<<16 | uint64(d.pk[3])<<8 | uint64(d.pk[4])
	d.topic = fmt.Sprintf("ssv.v2.%d", prefix%128)
	d.opID = uint64(1 + sc.r.Intn(3))
	off := offsetNs(round)
	t := sc.u.slotStartUnix(sc.slot)*1_000_000_000 + off
	d.sec, d.nsec = t/1_000_000_000, t%1_000_000_000
	return d
}

func (sc *scene) consDraft(sm *specqbft.SignedMessage) *draft {
	d := sc.draftAt(uint64(sm.Message.Round))
	d.msgType = uint64(spectypes.SSVConsensusMsgType)
	d.cons = sm
	return d
}

func (sc *scene) partDraft(pm *spectypes.SignedPartialSignatureMessage, round uint64) *draft {
	d := sc.draftAt(round)
	d.msgType = uint64(spectypes.SSVPartialSignatureMsgType)
	d.part = pm
	return d
}

// honest returns one honest message of the named kind for the scene.
var honestKinds = []string{"proposal", "proposal2", "proposal2p", "prepare", "commit", "roundchange", "roundchange-p", "decided", "decided-all", "pre", "post"}

func (sc *scene) honest(kind string) *draft {
	q := int(sc.val.share.Quorum)
	switch kind {
	case "proposal":
		return sc.consDraft(sc.proposal(1, false, sc.value))
	case "proposal2":
		return sc.consDraft(sc.proposal(2, false, sc.value))
	case "proposal2p":
		return sc.consDraft(sc.proposal(2, true, sc.value))
	case "prepare":
		return sc.consDraft(sc.prepare(1+sc.r.Intn(sc.n()), 1, sc.value))
	case "commit":
		return sc.consDraft(sc.commit(1+sc.r.Intn(sc.n()), 1, sc.value))
	case "roundchange":
		return sc.consDraft(sc.roundChange(1+sc.r.Intn(sc.n()), 2, false, sc.value))
	case "roundchange-p":
		return sc.consDraft(sc.roundChange(1+sc.r.Intn(sc.n()), 2, true, sc.value))
	case "decided":
		return sc.consDraft(sc.decided(sc.quorumPositions(q), 1, sc.value))
	case "decided-all":
		return sc.consDraft(sc.decided(sc.quorumPositions(sc.n()), 1, sc.value))
	case "pre":
		tys := partialTypesOf(sc.role)
		return sc.partDraft(sc.partial(1+sc.r.Intn(sc.n()), tys[0], 1), 1)
	case "post":
		tys := partialTypesOf(sc.role)
		return sc.partDraft(sc.partial(1+sc.r.Intn(sc.n()), tys[len(tys)-1], 1+sc.r.Intn(2)), 1)
	}
	panic("kind " + kind)
}

// ---- the mutation table -------------------------------------------------------------------------

type mutation struct {
	name  string
	on    string // "cons", "part", "any"
	apply func(sc *scene, d *draft)
}

func setTime(d *draft, u *universe, slot uint64, offNs int64) {
	t := u.slotStartUnix(slot)*1_000_000_000 + offNs
	d.sec, d.nsec = t/1_000_000_000, t%1_000_000_000
}

func nonMember(v *valInfo) uint64 {
	for c := uint64(1); ; c++ {
		found := false
		for _, x := range v.committee {
			if x == c {
				found = true
			}
		}
		if !found {
			return c
		}
	}
}

var mutations = []mutation{
	{"none", "any", func(sc *scene, d *draft) {}},
	// envelope / identity
	{"wrong-topic", "any", func(sc *scene, d *draft) { d.p2p = true; d.topic = "ssv.v2.129" }},
	{"neighbour-topic", "any", func(sc *scene, d *draft) {
		d.p2p = true
		var k int
		fmt.Sscanf(d.topic, "ssv.v2.%d", &k)
		d.topic = fmt.Sprintf("ssv.v2.%d", (k+1)%128)
	}},
	{"garbage-topic", "any", func(sc *scene, d *draft) { d.p2p = true; d.topic = "decided" }},
	{"wrong-domain", "any", func(sc *scene, d *draft) { d.domain[3] ^= 1 }},
	{"unknown-validator", "any", func(sc *scene, d *draft) {
		d.pk = sc.u.unknownPK
		prefix := uint64(d.pk[0])<<32 | uint64(d.pk[1])<<24 | uint64(d.pk[2])<<16 | uint64(d.pk[3])<<8 | uint64(d.pk[4])
		d.topic = fmt.Sprintf("ssv.v2.%d", prefix%128)
	}},
	{"invalid-pubkey", "any", func(sc *scene, d *draft) {
		d.pk = bytes.Repeat([]byte{0xff}, 48)
		d.topic = fmt.Sprintf("ssv.v2.%d", uint64(0xffffffffff)%128)
	}},
	{"liquidated", "any", func(sc *scene, d *draft) { retarget(sc, d, sc.u.vals[4]) }},
	{"no-metadata", "any", func(sc *scene, d *draft) { retarget(sc, d, sc.u.vals[5]) }},
	{"not-attesting", "any", func(sc *scene, d *draft) { retarget(sc, d, sc.u.vals[6]) }},
	{"role-7", "any", func(sc *scene, d *draft) { d.role = 7 }},
	{"role-max", "any", func(sc *scene, d *draft) { d.role = 0xffffffff }},
	{"role-valreg", "cons", func(sc *scene, d *draft) { d.role = uint32(spectypes.BNRoleValidatorRegistration) }},
	{"msgtype-dkg", "any", func(sc *scene, d *draft) { d.msgType = uint64(spectypes.DKGMsgType) }},
	{"msgtype-3", "any", func(sc *scene, d *draft) { d.msgType = 3 }},
	{"msgtype-max", "any", func(sc *scene, d *draft) { d.msgType = 1<<64 - 1 }},
	{"msgtype-event", "any", func(sc *scene, d *draft) {
		d.msgType = uint64(ssvmessage.SSVEventMsgType)
		d.data, d.dataSet = []byte(`{"Type":1,"Data":"e30="}`), true
	}},
	{"msgtype-swapped", "any", func(sc *scene, d *draft) { d.msgType ^= 1 }},
	{"empty-data", "any", func(sc *scene, d *draft) { d.data, d.dataSet = nil, true }},
	{"truncated-data", "any", func(sc *scene, d *draft) {
		in := (&draft{u: d.u, pk: d.pk, cons: d.cons, part: d.part}).build()
		d.data, d.dataSet = in.msg.Data[:len(in.msg.Data)*2/3], true
	}},
	{"oversize-data", "any", func(sc *scene, d *draft) { d.data, d.dataSet = bytes.Repeat([]byte{7}, 8388609), true }},
	{"partial-oversize", "part", func(sc *scene, d *draft) {
		for len(d.part.Message.Messages) < 13 {
			cp := *d.part.Message.Messages[0]
			cp.SigningRoot[0] = byte(len(d.part.Message.Messages))
			d.part.Message.Messages = append(d.part.Message.Messages, &cp)
		}
	}},
	{"unsigned-in-signed-era", "any", func(sc *scene, d *draft) { toEra(sc, d, true); d.signed = false }},
	{"signed-in-unsigned-era", "any", func(sc *scene, d *draft) { toEra(sc, d, false); d.p2p = true; d.signed = true }},
	{"bad-rsa-signature", "any", func(sc *scene, d *draft) { toEra(sc, d, true); d.badSig = true }},
	{"unknown-operator", "any", func(sc *scene, d *draft) { toEra(sc, d, true); d.opID = 99 }},
	{"operator-bad-key", "any", func(sc *scene, d *draft) { toEra(sc, d, true); d.opID = 50 }},
	{"other-operator-signature", "any", func(sc *scene, d *draft) {
		toEra(sc, d, true)
		in := d.build()
		// claim operator 2 but keep operator 1's signature (or vice versa)
		claimed := uint64(2)
		if binary.LittleEndian.Uint64(in.data[256:264]) == 2 {
			claimed = 1
		}
		binary.LittleEndian.PutUint64(in.data[256:264], claimed)
		d.p2pData, d.p2pSet = in.data, true
	}},
	{"short-envelope", "any", func(sc *scene, d *draft) {
		toEra(sc, d, true)
		d.p2pData, d.p2pSet = bytes.Repeat([]byte{1}, 263), true
	}},
	{"empty-pubsub", "any", func(sc *scene, d *draft) { d.p2p = true; d.p2pData, d.p2pSet = nil, true }},
	{"garbage-pubsub", "any", func(sc *scene, d *draft) {
		d.p2p = true
		d.signed = false
		toEra(sc, d, false)
		d.p2pData, d.p2pSet = sc.r.Bytes(80), true
	}},
	// consensus fields
	{"round-0", "cons", func(sc *scene, d *draft) { d.cons.Message.Round = 0 }},
	{"round-too-high", "cons", func(sc *scene, d *draft) {
		mr, _ := monMaxRound(sc.role)
		d.cons.Message.Round = specqbft.Round(mr + 1)
		setTime(d, sc.u, sc.slot, offsetNs(mr+1))
	}},
	{"round-ahead", "cons", func(sc *scene, d *draft) { d.cons.Message.Round += 2 }},
	{"round-2^63", "cons", func(sc *scene, d *draft) { d.cons.Message.Round = 1 << 63 }},
	{"round-max", "cons", func(sc *scene, d *draft) { d.cons.Message.Round = 1<<64 - 1 }},
	{"height-next", "cons", func(sc *scene, d *draft) { d.cons.Message.Height++ }},
	{"height-expired", "cons", func(sc *scene, d *draft) {
		ttl, _ := monTTL(sc.role)
		d.cons.Message.Height -= specqbft.Height(ttl + 1)
	}},
	{"height-0", "cons", func(sc *scene, d *draft) { d.cons.Message.Height = 0 }},
	{"height-plus-2^62", "cons", func(sc *scene, d *draft) { d.cons.Message.Height += 1 << 62 }},
	{"height-plus-2^63", "cons", func(sc *scene, d *draft) { d.cons.Message.Height += 1 << 63 }},
	{"height-max", "cons", func(sc *scene, d *draft) { d.cons.Message.Height = 1<<64 - 1 }},
	{"qbft-type-4", "cons", func(sc *scene, d *draft) { d.cons.Message.MsgType = 4 }},
	{"qbft-type-max", "cons", func(sc *scene, d *draft) { d.cons.Message.MsgType = 1<<64 - 1 }},
	{"no-signers", "cons", func(sc *scene, d *draft) { d.cons.Signers = nil }},
	{"zero-signer", "cons", func(sc *scene, d *draft) { d.cons.Signers[0] = 0 }},
	{"non-member-signer", "cons", func(sc *scene, d *draft) { d.cons.Signers[len(d.cons.Signers)-1] = nonMember(sc.val) + 100 }},
	{"second-signer", "cons", func(sc *scene, d *draft) {
		if len(d.cons.Signers) == 1 {
			other := sc.val.committee[0]
			if other == d.cons.Signers[0] {
				other = sc.val.committee[1]
			}
			d.cons.Signers = append(d.cons.Signers, other)
			if d.cons.Signers[0] > d.cons.Signers[1] {
				d.cons.Signers[0], d.cons.Signers[1] = d.cons.Signers[1], d.cons.Signers[0]
			}
		} else {
			d.cons.Signers = d.cons.Signers[:int(sc.val.share.Quorum)-1] // decided with quorum-1 signers
		}
	}},
	{"unsorted-signers", "cons", func(sc *scene, d *draft) {
		if len(d.cons.Signers) > 1 {
			s := d.cons.Signers
			s[0], s[len(s)-1] = s[len(s)-1], s[0]
		} else {
			d.cons.Signers = []spectypes.OperatorID{sc.val.committee[1], sc.val.committee[0]}
			d.cons.Message.MsgType = specqbft.CommitMsgType
		}
	}},
	{"duplicated-signer", "cons", func(sc *scene, d *draft) {
		if len(d.cons.Signers) > 1 {
			d.cons.Signers[1] = d.cons.Signers[0]
		} else {
			d.cons.Signers = append(d.cons.Signers, d.cons.Signers[0])
		}
	}},
	{"too-many-signers", "cons", func(sc *scene, d *draft) {
		d.cons.Message.MsgType = specqbft.CommitMsgType
		d.cons.Signers = nil
		for _, c := range sc.val.committee {
			d.cons.Signers = append(d.cons.Signers, c)
		}
		d.cons.Signers = append(d.cons.Signers, sc.val.committee[len(sc.val.committee)-1]+1)
	}},
	{"13-signers", "cons", func(sc *scene, d *draft) {
		d.cons.Message.MsgType = specqbft.CommitMsgType
		d.cons.Signers = nil
		for i := uint64(1); i <= 13; i++ {
			d.cons.Signers = append(d.cons.Signers, i)
		}
	}},
	{"14-signers", "cons", func(sc *scene, d *draft) {
		d.cons.Message.MsgType = specqbft.CommitMsgType
		d.cons.Signers = nil
		for i := uint64(1); i <= 14; i++ {
			d.cons.Signers = append(d.cons.Signers, i)
		}
	}},
	{"not-leader", "cons", func(sc *scene, d *draft) {
		if d.cons.Message.MsgType == specqbft.ProposalMsgType {
			pos := sc.leaderPos(uint64(d.cons.Message.Height), uint64(d.cons.Message.Round))
			d.cons.Signers[0] = sc.val.committee[pos%sc.n()]
		} else {
			d.cons.Message.MsgType = specqbft.ProposalMsgType // a non-leader's message relabelled as proposal
			if int(d.cons.Signers[0]) == int(sc.val.committee[sc.leaderPos(uint64(d.cons.Message.Height), uint64(d.cons.Message.Round))-1]) {
				d.cons.Message.Round++
			}
		}
	}},
	{"zero-signature", "cons", func(sc *scene, d *draft) { d.cons.Signature = make([]byte, 96) }},
	{"short-signature", "cons", func(sc *scene, d *draft) { d.cons.Signature = d.cons.Signature[:95] }},
	{"wrong-root", "cons", func(sc *scene, d *draft) {
		d.cons.Message.Root[5] ^= 1
		if len(d.cons.FullData) == 0 {
			d.cons.FullData = []byte("attached")
			if d.cons.Message.MsgType == specqbft.PrepareMsgType || (d.cons.Message.MsgType == specqbft.CommitMsgType && len(d.cons.Signers) == 1) {
				d.note += " data-ignored-by-kind"
			}
		}
	}},
	{"other-full-data", "cons", func(sc *scene, d *draft) { d.cons.FullData = append([]byte("other-"), d.cons.FullData...) }},
	{"prepare-justification-on-non-proposal", "cons", func(sc *scene, d *draft) {
		d.cons.Message.PrepareJustification = spectestingutils.MarshalJustifications([]*specqbft.SignedMessage{sc.prepare(1, 1, sc.value)})
	}},
	{"round-change-justification-on-prepare", "cons", func(sc *scene, d *draft) {
		d.cons.Message.RoundChangeJustification = spectestingutils.MarshalJustifications([]*specqbft.SignedMessage{sc.roundChange(1, 2, false, sc.value)})
	}},
	{"malformed-prepare-justification", "cons", func(sc *scene, d *draft) { d.cons.Message.PrepareJustification = [][]byte{{1, 2, 3}} }},
	{"malformed-round-change-justification", "cons", func(sc *scene, d *draft) { d.cons.Message.RoundChangeJustification = [][]byte{{9, 9}} }},
	{"truncated-justification", "cons", func(sc *scene, d *draft) {
		j := spectestingutils.MarshalJustifications([]*specqbft.SignedMessage{sc.roundChange(1, 2, false, sc.value)})
		j[0] = j[0][:len(j[0])-7]
		d.cons.Message.RoundChangeJustification = j
	}},
	{"unjustified-proposal", "cons", func(sc *scene, d *draft) {
		if d.cons.Message.MsgType == specqbft.ProposalMsgType && d.cons.Message.Round > 1 {
			d.cons.Message.RoundChangeJustification = d.cons.Message.RoundChangeJustification[:1]
		} else {
			p := sc.proposal(2, false, sc.value)
			p.Message.RoundChangeJustification = nil
			*d = *sc.consDraft(p)
		}
	}},
	{"no-duty", "cons", func(sc *scene, d *draft) {
		// proposer: a slot without duty; sync committee: a validator without duty
		switch sc.role {
		case spectypes.BNRoleProposer:
			d.cons.Message.Height++
			setTime(d, sc.u, sc.slot+1, offsetNs(uint64(d.cons.Message.Round)))
		case spectypes.BNRoleSyncCommittee, spectypes.BNRoleSyncCommitteeContribution:
			retarget(sc, d, sc.u.vals[1])
		default:
			d.note += " not-applicable"
		}
	}},
	// partial signature fields
	{"ptype-6", "part", func(sc *scene, d *draft) { d.part.Message.Type = 6 }},
	{"ptype-max", "part", func(sc *scene, d *draft) { d.part.Message.Type = 1<<64 - 1 }},
	{"ptype-role-mismatch", "part", func(sc *scene, d *draft) {
		for t := spectypes.PartialSigMsgType(0); t < 6; t++ {
			if !monPartialTypeOK(t, sc.role) {
				d.part.Message.Type = t
				return
			}
		}
	}},
	{"partial-zero-signer", "part", func(sc *scene, d *draft) {
		d.part.Signer = 0
		for _, m := range d.part.Message.Messages {
			m.Signer = 0
		}
	}},
	{"partial-non-member", "part", func(sc *scene, d *draft) {
		x := nonMember(sc.val) + 100
		d.part.Signer = x
		for _, m := range d.part.Message.Messages {
			m.Signer = x
		}
	}},
	{"partial-no-messages", "part", func(sc *scene, d *draft) { d.part.Message.Messages = nil }},
	{"partial-duplicate-root", "part", func(sc *scene, d *draft) {
		cp := *d.part.Message.Messages[0]
		d.part.Message.Messages = append(d.part.Message.Messages, &cp)
	}},
	{"partial-inner-signer", "part", func(sc *scene, d *draft) {
		other := sc.val.committee[0]
		if other == d.part.Signer {
			other = sc.val.committee[1]
		}
		d.part.Message.Messages[len(d.part.Message.Messages)-1].Signer = other
	}},
	{"partial-inner-zero-signature", "part", func(sc *scene, d *draft) { d.part.Message.Messages[0].PartialSignature = make([]byte, 96) }},
	{"partial-zero-signature", "part", func(sc *scene, d *draft) { d.part.Signature = make([]byte, 96) }},
	{"partial-slot-0", "part", func(sc *scene, d *draft) { d.part.Message.Slot = 0 }},
	{"partial-slot-2^63", "part", func(sc *scene, d *draft) { d.part.Message.Slot = 1 << 63 }},
	{"partial-slot-max", "part", func(sc *scene, d *draft) { d.part.Message.Slot = 1<<64 - 1 }},
}

func retarget(sc *scene, d *draft, v *valInfo) {
	d.val, d.pk = v, v.pk
	prefix := uint64(d.pk[0])<<32 | uint64(d.pk[1])<<24 | uint64(d.pk[2])<<16 | uint64(d.pk[3])<<8 | uint64(d.pk[4])
	d.topic = fmt.Sprintf("ssv.v2.%d", prefix%128)
}

// toEra moves the message (its slot and its reception time) into the signed / unsigned era.
func toEra(sc *scene, d *draft, signed bool) {
	d.p2p = true
	if sc.signed == signed {
		d.signed = signed
		return
	}
	from, to := uint64(baseEpoch), uint64(signedEpoch)
	if !signed {
		from, to = to, from
	}
	delta := (to - from) * slotsInEpoch
	if !signed {
		delta = -((from - to) * slotsInEpoch)
	}
	if d.cons != nil {
		d.cons.Message.Height += specqbft.Height(delta)
	}
	if d.part != nil {
		d.part.Message.Slot += phase0.Slot(delta)
	}
	d.sec += int64(delta) * slotSeconds
	d.signed = signed
}
