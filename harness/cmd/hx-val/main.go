// hx-val drives the real message validator (message/validation) and the hand-written / generated
// decoders for properties C08 (no panic) and C09 (no rule-breaking message accepted).
//
//	hx-val validate -prop C08|C09 -seed S -n N [-stream mut|adv|hist|table]   generated cases
//	hx-val decode   -prop C08 -seed S -n N       decoders under recover(), memory limit, deadline
//	hx-val race     -prop C08|C09 -seed S -n N   concurrent validation (monitor only)
//	hx-val replay FILE [-prop P]                 re-run the RAW / decoder lines of a file
//
// Per validation the driver writes
//
//	RAW ...    the concrete input (replayable)
//	VAL ...    its abstraction = the model's input (oracle bits computed by the real code)
//	OBS <accept|ignore|reject|panic> <error text>    and one OBS st line per signer state
//	MON viol ...   only for the property named by -prop; the other property's monitor is printed
//	               as a comment (# MON-Cxx ...)
package main

import (
	"bufio"
	"flag"
	"fmt"
	"os"
	"strconv"
	"strings"

	"github.com/bloxapp/ssv/message/validation"

	"verifharness/hx"
)

type session struct {
	u    *universe
	out  *hx.Out
	prop string
	v    validation.MessageValidator
	mon  *monitor
	fds  *fdTable
}

func newSession(u *universe, out *hx.Out, prop string) *session {
	return &session{u: u, out: out, prop: prop}
}

// begin writes the case header and the configuration the model needs; the validator is created
// by fresh() (or lazily by the first step).
func (s *session) begin(format string, a ...any) {
	s.out.Case(format, a...)
	for _, l := range s.u.cfgLines() {
		f := strings.SplitN(l, " ", 2)
		s.out.Op(f[0], "%s", f[1])
	}
	s.v = nil
}

func (s *session) fresh() {
	s.out.Op("NEW", "")
	s.reset()
}

func (s *session) reset() {
	s.v = s.u.newValidator()
	s.mon = newMonitor(s.u)
	s.fds = &fdTable{}
}

func (s *session) report(prop, format string, a ...any) {
	if prop == s.prop {
		s.out.ViolF(format, a...)
	} else {
		s.out.Note("MON-%s viol %s", prop, strings.ReplaceAll(fmt.Sprintf(format, a...), "\n", " "))
	}
}

// step validates one input on the real validator and writes its lines.
func (s *session) step(in *input) outcome {
	if s.v == nil {
		s.reset()
	}
	s.out.Op("RAW", "%s", in.rawLine())
	a := s.u.abstract(in, s.fds)
	s.out.Op("VAL", "%s", a.line)
	if a.absPanic != "" {
		s.report("C08", "panic: %s", a.absPanic)
	}
	res := callValidator(s.v, in)
	s.out.Obs("%s %s", res.class, res.text)
	s.out.Count("class_" + res.class)
	if res.class != "accept" && res.class != "panic" {
		s.out.Count("err_" + res.text)
	}
	if a.ssvMsg != nil && a.val != nil {
		for _, st := range validation.VerifDumpSignerStates(s.v, a.ssvMsg.MsgID) {
			pd := "-"
			if st.ProposalData != nil {
				pd = fmt.Sprint(s.fds.id(st.ProposalData))
			}
			c := st.Counts
			s.out.Obs("st %d %d %d %d %d %d %d %d %d %d %s %d", st.Signer, st.Slot, st.Round, c.PreConsensus, c.Proposal,
				c.Prepare, c.Commit, c.Decided, c.RoundChange, c.PostConsensus, pd, st.EpochDuties)
		}
	}
	switch res.class {
	case "panic":
		s.report("C08", "panic: %s", res.panic)
	case "accept":
		for _, v := range s.mon.c09(in, a) {
			s.report("C09", "%s", v)
		}
		if a.part != nil && uint64(a.part.Message.Slot) > s.u.estSlot(in.sec)+1 {
			s.out.Note("OBSERVATION partial signature message for slot %d accepted in slot %d: the code has no slot window for partial signature messages (DESIGN C09 reading (a))",
				uint64(a.part.Message.Slot), s.u.estSlot(in.sec))
			s.out.Count("obs_partial_no_slot_window")
		}
	}
	return res
}

func usage() {
	fmt.Fprintln(os.Stderr, "usage: hx-val validate|decode|race|replay ...")
	os.Exit(2)
}

func main() {
	if len(os.Args) < 2 {
		usage()
	}
	mode := os.Args[1]
	fs := flag.NewFlagSet(mode, flag.ExitOnError)
	prop := fs.String("prop", "C08", "property whose monitor reports MON viol lines")
	seed := fs.Uint64("seed", 1, "seed")
	n := fs.Int("n", 100, "number of cases")
	stream := fs.String("stream", "mut", "validate: mut | adv | hist | table")
	args := os.Args[2:]
	var file string
	if mode == "replay" {
		if len(args) < 1 {
			usage()
		}
		file, args = args[0], args[1:]
	}
	_ = fs.Parse(args)
	out := hx.NewOut()
	defer out.Close()
	switch mode {
	case "validate":
		runValidate(newUniverse(), out, *prop, *stream, *seed, *n)
	case "decode":
		runDecode(out, *prop, *seed, *n)
	case "race":
		runRace(newUniverse(), out, *prop, *seed, *n)
	case "corpus":
		runCorpus(out, fs.Arg(0))
	case "replay":
		p := *prop
		if !flagGiven(fs, "prop") {
			p = "" // decided per case from its header
		}
		runReplay(out, file, p)
	default:
		usage()
	}
}

func flagGiven(fs *flag.FlagSet, name string) bool {
	found := false
	fs.Visit(func(f *flag.Flag) {
		if f.Name == name {
			found = true
		}
	})
	return found
}

// runReplay re-runs the RAW lines (validator) and the decoder lines of a corpus / replay file.
// The property a case belongs to is read from its header (prop=Cxx) unless -prop is given.
func runReplay(out *hx.Out, file, prop string) {
	fh, err := os.Open(file)
	must(err)
	defer fh.Close()
	var u *universe
	var s *session
	sc := bufio.NewScanner(fh)
	sc.Buffer(make([]byte, 1<<20), 256<<20)
	open := false
	caseProp := "C08"
	for sc.Scan() {
		line := strings.TrimRight(sc.Text(), "\r\n")
		f := strings.Fields(line)
		if len(f) == 0 {
			continue
		}
		switch f[0] {
		case "CASE":
			if open {
				out.End()
			}
			caseProp = prop
			if caseProp == "" {
				caseProp = "C08"
				for _, w := range f {
					if strings.HasPrefix(w, "prop=") {
						caseProp = w[5:]
					}
				}
			}
			hdr := ""
			if len(f) > 2 {
				hdr = strings.Join(f[2:], " ")
			}
			if u == nil {
				u = newUniverse()
			}
			s = newSession(u, out, caseProp)
			s.begin("%s", hdr)
			open = true
		case "END":
			if open {
				out.End()
				open = false
			}
		case "NEW":
			if s != nil && open {
				s.fresh()
			}
		case "RAW":
			if s == nil || !open {
				continue
			}
			in, err := parseRaw(f[1:])
			if err != nil {
				out.Note("unparsable RAW line: %v", err)
				continue
			}
			s.step(in)
		case "METRICS":
			if s == nil || !open || len(f) < 2 {
				continue
			}
			cnt, _ := strconv.Atoi(f[1])
			// metricsCase writes its own CASE/END; close the header case first
			out.End()
			open = false
			metricsCase(s, cnt)
		case "STRANGERS":
			if s == nil || !open || len(f) < 2 {
				continue
			}
			cnt, _ := strconv.Atoi(f[1])
			out.End()
			open = false
			strangersCase(s, cnt)
		case "FUZZ":
			if s == nil || !open || len(f) < 4 {
				continue
			}
			sd, _ := strconv.ParseUint(f[2], 10, 64)
			cnt, _ := strconv.Atoi(f[3])
			limitResources()
			out.Op("FUZZ", "%s %d %d", f[1], sd, cnt)
			seeds := decodeSeeds(u, hx.NewRand(sd, "decode-seeds", 0))
			for ti, t := range decodeTargets(u, testSubnets()) {
				if t.name == f[1] {
					fuzzTarget(s, t, seeds[seedKindOf[t.name]], sd, cnt, ti)
				}
			}
		case "DSSV", "SUBNETS", "SHARED", "SNI", "BYTES":
			if s == nil || !open {
				continue
			}
			replayDecoderLine(out, caseProp, f)
		}
	}
	if open {
		out.End()
	}
}
