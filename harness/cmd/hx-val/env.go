package main

// The fixed universe every mode runs in: a real node storage with nine validators (committees of
// 4, 7, 10, 13; liquidated / metadata-less / exited / pending-queued ones; one with sparse operator
// ids), registered operators with RSA keys, a duty store, and a network configuration whose
// PermissionlessActivationEpoch lies between the two epochs the generators use.

import (
	"crypto"
	"crypto/rsa"
	"crypto/sha256"
	"encoding/base64"
	"fmt"

	eth2apiv1 "github.com/attestantio/go-eth2-client/api/v1"
	"github.com/attestantio/go-eth2-client/spec/phase0"
	spectypes "github.com/bloxapp/ssv-spec/types"
	spectestingutils "github.com/bloxapp/ssv-spec/types/testingutils"
	"github.com/herumi/bls-eth-go-binary/bls"
	"go.uber.org/zap"

	"github.com/bloxapp/ssv/message/validation"
	"github.com/bloxapp/ssv/networkconfig"
	"github.com/bloxapp/ssv/operator/duties/dutystore"
	"github.com/bloxapp/ssv/operator/keys"
	"github.com/bloxapp/ssv/operator/storage"
	beaconprotocol "github.com/bloxapp/ssv/protocol/v2/blockchain/beacon"
	ssvtypes "github.com/bloxapp/ssv/protocol/v2/types"
	registrystorage "github.com/bloxapp/ssv/registry/storage"
	"github.com/bloxapp/ssv/storage/basedb"
	"github.com/bloxapp/ssv/storage/kv"
)

const (
	baseEpoch    = 10000 // unsigned era: PermissionlessActivationEpoch not reached
	permEpoch    = 10100
	signedEpoch  = 10200 // signed era
	slotsInEpoch = 32
	slotSeconds  = 12
)

type valInfo struct {
	vid        int
	pk         []byte
	share      *ssvtypes.SSVShare
	ks         *spectestingutils.TestKeySet // keys of the committee members, by position (1-based)
	committee  []uint64
	index      phase0.ValidatorIndex
	liquidated bool
	hasMeta    bool
	attesting  bool
}

type operatorInfo struct {
	id    uint64
	priv  keys.OperatorPrivateKey
	pub   *rsa.PublicKey // nil: stored key does not parse
	found bool
}

type universe struct {
	netCfg    networkconfig.NetworkConfig
	ns        storage.Storage
	vals      []*valInfo // vals[i].vid == i+1
	byPK      map[string]*valInfo
	operators map[uint64]*operatorInfo
	duties    *dutystore.Store
	unknownPK []byte // a valid BLS key with no share
}

func must(err error) {
	if err != nil {
		panic(err)
	}
}

func derivedPK(i int) []byte {
	sk := &bls.SecretKey{}
	must(sk.SetDecString(fmt.Sprintf("%d", 7700000+i)))
	return sk.GetPublicKey().Serialize()
}

func newUniverse() *universe {
	_ = spectestingutils.Testing4SharesSet() // initialises BLS
	u := &universe{byPK: map[string]*valInfo{}, operators: map[uint64]*operatorInfo{}}
	u.netCfg = networkconfig.TestNetwork
	u.netCfg.PermissionlessActivationEpoch = permEpoch

	logger := zap.NewNop()
	db, err := kv.NewInMemory(logger, basedb.Options{})
	must(err)
	u.ns, err = storage.NewNodeStorage(logger, db)
	must(err)

	ks4, ks7, ks10, ks13 := spectestingutils.Testing4SharesSet(), spectestingutils.Testing7SharesSet(),
		spectestingutils.Testing10SharesSet(), spectestingutils.Testing13SharesSet()
	type spec struct {
		ks         *spectestingutils.TestKeySet
		ids        []uint64 // nil: 1..n
		liquidated bool
		meta       *beaconprotocol.ValidatorMetadata
	}
	active := func(idx int) *beaconprotocol.ValidatorMetadata {
		return &beaconprotocol.ValidatorMetadata{Status: eth2apiv1.ValidatorStateActiveOngoing, Index: phase0.ValidatorIndex(idx)}
	}
	specs := []spec{
		{ks: ks4, meta: active(101)},
		{ks: ks7, meta: active(102)},
		{ks: ks10, meta: active(103)},
		{ks: ks13, meta: active(104)},
		{ks: ks4, liquidated: true, meta: active(105)},
		{ks: ks4, meta: nil},
		{ks: ks4, meta: &beaconprotocol.ValidatorMetadata{Status: eth2apiv1.ValidatorStateExitedUnslashed, Index: 107}},
		{ks: ks4, meta: &beaconprotocol.ValidatorMetadata{Status: eth2apiv1.ValidatorStatePendingQueued, Index: 108, ActivationEpoch: 0}},
		{ks: ks4, ids: []uint64{3, 7, 12, 20}, meta: active(109)},
	}
	for i, sp := range specs {
		base := spectestingutils.TestingShare(sp.ks)
		sh := &ssvtypes.SSVShare{Share: *base, Metadata: ssvtypes.Metadata{BeaconMetadata: sp.meta, Liquidated: sp.liquidated}}
		if i == 0 {
			sh.ValidatorPubKey = sp.ks.ValidatorPK.Serialize()
		} else {
			sh.ValidatorPubKey = derivedPK(i)
		}
		n := len(base.Committee)
		ids := sp.ids
		if ids == nil {
			for k := 1; k <= n; k++ {
				ids = append(ids, uint64(k))
			}
		}
		committee := make([]*spectypes.Operator, n)
		for k := 0; k < n; k++ {
			committee[k] = &spectypes.Operator{OperatorID: ids[k], PubKey: base.Committee[k].PubKey}
		}
		sh.Committee = committee
		sh.OperatorID = ids[0]
		vi := &valInfo{vid: i + 1, pk: sh.ValidatorPubKey, share: sh, ks: sp.ks, committee: ids,
			liquidated: sp.liquidated, hasMeta: sp.meta != nil}
		if sp.meta != nil {
			vi.index = sp.meta.Index
			vi.attesting = sh.IsAttesting(u.netCfg.Beacon.EstimatedCurrentEpoch())
		}
		must(u.ns.Shares().Save(nil, sh))
		u.vals = append(u.vals, vi)
		u.byPK[string(vi.pk)] = vi
	}
	u.unknownPK = derivedPK(99)

	// operators: 1..3 with good RSA keys (one key pair each), 50 with an unparsable key, others absent
	for id := uint64(1); id <= 3; id++ {
		priv, err := keys.GeneratePrivateKey()
		must(err)
		pub64, err := priv.Public().Base64()
		must(err)
		_, err = u.ns.SaveOperatorData(nil, &registrystorage.OperatorData{ID: id, PublicKey: pub64})
		must(err)
		std, err := stdPublicKey(pub64)
		must(err)
		u.operators[id] = &operatorInfo{id: id, priv: priv, pub: std, found: true}
	}
	_, err = u.ns.SaveOperatorData(nil, &registrystorage.OperatorData{ID: 50, PublicKey: []byte(base64.StdEncoding.EncodeToString([]byte("not a pem block")))})
	must(err)
	u.operators[50] = &operatorInfo{id: 50, found: true}

	// duties: proposer duty for validator index I at slot S iff (S+I) even, around both eras;
	// sync-committee duty for the validators with an odd index
	u.duties = dutystore.New()
	for _, e := range []uint64{baseEpoch, signedEpoch} {
		for ep := e - 2; ep <= e+2; ep++ {
			for s := ep * slotsInEpoch; s < (ep+1)*slotsInEpoch; s++ {
				for _, v := range u.vals {
					if v.hasMeta && (s+uint64(v.index))%2 == 0 {
						u.duties.Proposer.Add(phase0.Epoch(ep), phase0.Slot(s), v.index, &eth2apiv1.ProposerDuty{Slot: phase0.Slot(s), ValidatorIndex: v.index}, true)
					}
				}
			}
			period := ep / 256
			for _, v := range u.vals {
				if v.hasMeta && v.index%2 == 1 {
					u.duties.SyncCommittee.Add(period, v.index, &eth2apiv1.SyncCommitteeDuty{ValidatorIndex: v.index}, true)
				}
			}
		}
	}
	return u
}

// dutyOK is the oracle bit c_duty_ok: what validateBeaconDuty will find in the store.
func (u *universe) dutyOK(role spectypes.BeaconRole, slot uint64, v *valInfo) bool {
	if !v.hasMeta {
		return true
	}
	epoch := slot / slotsInEpoch
	switch role {
	case spectypes.BNRoleProposer:
		return u.duties.Proposer.ValidatorDuty(phase0.Epoch(epoch), phase0.Slot(slot), v.index) != nil
	case spectypes.BNRoleSyncCommittee, spectypes.BNRoleSyncCommitteeContribution:
		return u.duties.SyncCommittee.Duty(epoch/256, v.index) != nil
	}
	return true
}

func (u *universe) newValidator() validation.MessageValidator {
	return validation.NewMessageValidator(u.netCfg, validation.WithNodeStorage(u.ns), validation.WithDutyStore(u.duties))
}

// stdPublicKey parses the stored operator key with the standard library only (the monitor's own
// RSA check does not go through operator/keys).
func stdPublicKey(pub64 []byte) (*rsa.PublicKey, error) {
	pemBytes, err := base64.StdEncoding.DecodeString(string(pub64))
	if err != nil {
		return nil, err
	}
	return parseRSAPublicKeyPEM(pemBytes)
}

func stdVerify(pub *rsa.PublicKey, data, sig []byte) bool {
	h := sha256.Sum256(data)
	return rsa.VerifyPKCS1v15(pub, crypto.SHA256, h[:], sig) == nil
}

func (u *universe) slotStartUnix(slot uint64) int64 {
	return int64(u.netCfg.Beacon.MinGenesisTime() + slot*slotSeconds)
}

// cfgLines writes the CFG / SHARE lines the model reads.
func (u *universe) cfgLines() []string {
	d := u.netCfg.Domain
	out := []string{fmt.Sprintf("CFG %d %d %d %d %d", u.netCfg.Beacon.MinGenesisTime(), slotSeconds, slotsInEpoch,
		uint64(u.netCfg.PermissionlessActivationEpoch), uint64(d[0])<<24|uint64(d[1])<<16|uint64(d[2])<<8|uint64(d[3]))}
	for _, v := range u.vals {
		s := fmt.Sprintf("SHARE %d %d %d %d %d", b2i(v.liquidated), b2i(v.hasMeta), b2i(v.attesting), v.share.Quorum, len(v.committee))
		for _, id := range v.committee {
			s += fmt.Sprintf(" %d", id)
		}
		out = append(out, s)
	}
	return out
}

func b2i(b bool) int {
	if b {
		return 1
	}
	return 0
}
