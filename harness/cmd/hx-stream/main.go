// hx-stream drives the real eth/executionclient.ExecutionClient (through the real
// eth/eventsyncer.EventSyncer) against an in-process fake execution node (C13).
//
//	hx-stream gen -seed S -n N               random chains, configurations and failure schedules
//	hx-stream exhaustive -heads H -shard i/m  every failure placement over H heads (8 choices per head)
//	hx-stream pack -seed S -n N              PackLogs on lists it sorts deterministically (model-compared)
//	hx-stream packx -seed S -n N             PackLogs on long unordered lists (monitor only)
//	hx-stream replay FILE                    re-run the operation lines of a corpus / replay file
//
// Operation lines (one case = the lines between CASE and END):
//
//	CFG follow batch                 follow distance and log batch size of the client
//	BLK b n (tx idx removed)*n       the logs of chain block b, in node order
//	HIST from bn|- [k kind]          EventSyncer.SyncHistory(from); eth_blockNumber answers bn (- = fails);
//	                                 the k-th eth_getLogs call fails with kind err|drop|cancel
//	STREAM from|*                    EventSyncer.SyncOngoing(from); * = where cli/operator/node.go resumes
//	                                 after the preceding HIST
//	SUBOK | SUBFAIL                  the node answers the pending eth_subscribe (with an error)
//	HEAD h [k kind]                  the node announces head h; the k-th eth_getLogs call it triggers fails
//	SUBERR                           the subscription fails (undecodable notification), connection intact
//	DROP                             every connection is cut
//	CANCEL                           the caller's context is cancelled
//	DIALFAIL d                       the next d connection attempts fail (no effect on the stream)
//	PACK n (block tx idx)*n          PackLogs on the given list
//
// Determinism.  The driver's goroutine is the direct receiver of the (unbuffered) BlockLogs
// channel - the event handler given to the EventSyncer *is* the driver loop - and of rendezvous
// channels fed by the fake node's request handlers and by the client's metrics hook.  The next
// event is injected only when the client is quiescent: blocked in eth_subscribe (the node holds the
// request), or back in the select of streamLogsToChan (signalled by
// the second ExecutionClientLastFetchedBlock call after a head, the last statement of the head case), or
// terminated (channel closed).  A head the client will skip (below the follow distance or not
// beyond its cursor) produces no signal; whether a head is skipped is decided from a cursor
// reconstructed from the client's own outputs (metrics value, delivered block numbers); a wrong
// guess shows up as a stall (timeout) or an unexpected eth_getLogs call, both reported.
package main

import (
	"bufio"
	"context"
	"errors"
	"flag"
	"fmt"
	"os"
	"sort"
	"strconv"
	"strings"
	"sync/atomic"
	"time"

	ethtypes "github.com/ethereum/go-ethereum/core/types"
	"go.uber.org/zap"
	"go.uber.org/zap/zapcore"

	"github.com/bloxapp/ssv/eth/eventsyncer"
	"github.com/bloxapp/ssv/eth/executionclient"

	"verifharness/hx"
)

const stallTimeout = 2 * time.Second

// dropDelay: see runCase.
var dropDelay = 5 * time.Millisecond

// sink is the part of hx.Out a case writes to; a case is recorded first so that it can be re-run
// (see retryable) before anything is printed.
type sink interface {
	Op(kind string, format string, a ...any)
	Obs(format string, a ...any)
	ViolF(format string, a ...any)
	Note(format string, a ...any)
	Count(key string)
}

type recorder struct {
	acts      []func(*hx.Out)
	retryable bool // stalled right after a connection cut
	stalled   bool // stalled
}

func (r *recorder) Op(kind string, format string, a ...any) {
	r.acts = append(r.acts, func(o *hx.Out) { o.Op(kind, format, a...) })
}
func (r *recorder) Obs(format string, a ...any) {
	r.acts = append(r.acts, func(o *hx.Out) { o.Obs(format, a...) })
}
func (r *recorder) ViolF(format string, a ...any) {
	r.acts = append(r.acts, func(o *hx.Out) { o.ViolF(format, a...) })
}
func (r *recorder) Note(format string, a ...any) {
	r.acts = append(r.acts, func(o *hx.Out) { o.Note(format, a...) })
}
func (r *recorder) Count(key string) { r.acts = append(r.acts, func(o *hx.Out) { o.Count(key) }) }

// runCase runs one case and prints it.  retryable: go-ethereum's rpc.Client (v1.13.5,
// Client.dispatch) can leave a call waiting forever when the connection dies between the moment
// the request has been written and the moment the dispatch loop has registered that ("reqSent"):
// the call is treated as still being sent and is not cancelled.  FilterLogs then never returns
// and the stream hangs; this is a liveness matter outside C13 and depends on a race inside the
// client library; it also hits eth_subscribe when the connection is cut right after the answer.
// The driver cuts connections only dropDelay after the last request arrived, and if the client
// nevertheless stalls right after a cut, the case is re-run (at most twice, with a longer
// delay); a stall that persists is reported.
//
// Any other stall is treated the same way: the case is re-run with a doubled time limit, and the
// stall is reported only if it shows in every attempt (a client that really hangs does so every
// time; on a heavily loaded machine a single reaction can take seconds).
func runCase(out *hx.Out, lines [][]string) {
	delay, limit := dropDelay, stallTimeout
	for attempt := 0; ; attempt++ {
		rec := &recorder{}
		runCaseOnce(rec, lines, delay, limit)
		if (rec.retryable || rec.stalled) && attempt < 2 {
			if rec.retryable {
				out.Count("rerun_after_client_library_hang")
			} else {
				out.Count("rerun_after_stall")
			}
			delay *= 4
			limit *= 2
			continue
		}
		for _, f := range rec.acts {
			f(out)
		}
		return
	}
}

// ---- logger that turns logger.Fatal into an observable --------------------------------------------

type fatalCore struct{ hit *atomic.Bool }

func (c fatalCore) Enabled(l zapcore.Level) bool      { return l >= zapcore.FatalLevel }
func (c fatalCore) With([]zapcore.Field) zapcore.Core { return c }
func (c fatalCore) Sync() error                       { return nil }
func (c fatalCore) Write(e zapcore.Entry, _ []zapcore.Field) error {
	if e.Level >= zapcore.FatalLevel {
		c.hit.Store(true)
	}
	return nil
}
func (c fatalCore) Check(e zapcore.Entry, ce *zapcore.CheckedEntry) *zapcore.CheckedEntry {
	if c.Enabled(e.Level) {
		return ce.AddCore(e, c)
	}
	return ce
}

// ---- metrics hook ----------------------------------------------------------------------------------

type metricsRec struct {
	ch   chan uint64
	quit chan struct{}
}

func (m *metricsRec) ExecutionClientReady()   {}
func (m *metricsRec) ExecutionClientSyncing() {}
func (m *metricsRec) ExecutionClientFailure() {}
func (m *metricsRec) ExecutionClientLastFetchedBlock(b uint64) {
	select {
	case m.ch <- b:
	case <-m.quit:
	}
}

// ---- the property monitor ---------------------------------------------------------------------------

// monitor states C13 directly on what the handler receives, against the scripted chain:
// strictly increasing block numbers; an entry carries exactly its block's non-removed logs in
// order; no block with non-removed logs is passed over; nothing beyond head - follow or before the
// start; once a head has been processed completely, every block up to head - follow is accounted for.
type monitor struct {
	out    sink
	chain  map[uint64][]clog
	from   uint64
	front  uint64 // every block in [from, front) is accounted for
	limit  uint64 // max over announced heads of head - follow
	hasLim bool
	nviol  int
}

func (m *monitor) viol(format string, a ...any) {
	m.nviol++
	if m.nviol <= 5 {
		m.out.ViolF(format, a...)
	}
}

func visible(ls []clog) []clog {
	var r []clog
	for _, l := range ls {
		if !l.removed {
			r = append(r, l)
		}
	}
	return r
}

// firstLive returns the lowest block in [a, b] with non-removed logs.
func (m *monitor) firstLive(a, b uint64) (uint64, bool) {
	var best uint64
	found := false
	for k, ls := range m.chain {
		if k >= a && k <= b && len(visible(ls)) > 0 && (!found || k < best) {
			best, found = k, true
		}
	}
	return best, found
}

func (m *monitor) allow(to uint64) {
	if !m.hasLim || to > m.limit {
		m.limit, m.hasLim = to, true
	}
}

func (m *monitor) entry(bl executionclient.BlockLogs) {
	b := bl.BlockNumber
	if b < m.from {
		m.viol("entry for block %d, before the requested start %d", b, m.from)
	}
	if b < m.front {
		m.viol("block numbers not strictly increasing: entry for block %d although every block below %d was already accounted for", b, m.front)
	} else if b > m.front {
		if k, ok := m.firstLive(m.front, b-1); ok {
			m.viol("block %d has non-removed logs but the stream went on to block %d without an entry for it", k, b)
		}
	}
	if !m.hasLim || b > m.limit {
		m.viol("entry for block %d, beyond head - follow distance (%d, announced=%v)", b, m.limit, m.hasLim)
	}
	want := visible(m.chain[b])
	same := len(want) == len(bl.Logs)
	for i := 0; same && i < len(want); i++ {
		l := bl.Logs[i]
		same = l.BlockNumber == b && uint64(l.TxIndex) == want[i].tx && uint64(l.Index) == want[i].idx && !l.Removed
	}
	if !same {
		m.viol("entry for block %d carries %s, the block's non-removed logs in order are %s", b, fmtLogs(bl.Logs), fmtClogs(want))
	}
	if b >= m.front && b != ^uint64(0) {
		m.front = b + 1
	}
}

// complete: the client reported that it is done with everything up to block to.
func (m *monitor) complete(to uint64) {
	if to < m.front {
		return
	}
	if k, ok := m.firstLive(m.front, to); ok {
		m.viol("everything up to block %d was reported fetched, but block %d has non-removed logs and no entry", to, k)
	}
}

func fmtLogs(ls []ethtypes.Log) string {
	s := "["
	for i, l := range ls {
		if i > 0 {
			s += " "
		}
		s += fmt.Sprintf("%d:%d", l.TxIndex, l.Index)
	}
	return s + "]"
}

func fmtClogs(ls []clog) string {
	s := "["
	for i, l := range ls {
		if i > 0 {
			s += " "
		}
		s += fmt.Sprintf("%d:%d", l.tx, l.idx)
	}
	return s + "]"
}

// ---- one case ----------------------------------------------------------------------------------------

type failspec struct {
	on   bool
	k    int
	kind string // err drop cancel
}

const (
	stNone  = iota // no stream running
	stSub          // client blocked in eth_subscribe
	stIdle         // client subscribed and waiting
	stDone         // channel closed
	stFatal        // channel closed after logger.Fatal
	stStall
)

var stNames = map[int]string{stSub: "sub", stIdle: "idle", stDone: "done", stFatal: "fatal", stStall: "stall"}

type env struct {
	out      sink
	rec      *recorder
	delay    time.Duration
	limit    time.Duration
	lastDrop bool // the last reply of the current wait was a connection cut during a fetch
	follow   uint64
	batch    uint64
	chain    map[uint64][]clog

	node   *node
	ec     *executionclient.ExecutionClient
	es     *eventsyncer.EventSyncer
	met    *metricsRec
	fatal  *atomic.Bool
	base   context.Context
	stop   context.CancelFunc
	cfgGen int // configuration the client was built with

	lines [][]string
	pos   int

	mon    *monitor
	resume *uint64 // where node.go starts SyncOngoing after the last HIST

	// the running stream
	state      int
	pending    *subReq
	cancelOp   context.CancelFunc
	cursor     uint64 // reconstructed from the client's outputs, only to tell skipped heads
	fs         failspec
	nq         int
	qs         [][2]uint64
	es2        []executionclient.BlockLogs
	ms         []uint64
	histMode   bool
	histLast   uint64
	unexpected int

	// Schedule variation (not visible in the operation lines): when HEAD is followed by SUBERR and the head
	// number is odd, the subscription error is injected while the handler is busy - right after the first
	// eth_getLogs answer of the head, before any entry is received - instead of after the head.  The stream
	// must not depend on that ("regardless of ... subscription failures"): the entry that is waiting to be
	// handed over when the subscription fails must still arrive.
	busyErr    bool // armed for the current HEAD
	errPlanted bool // the subscription error of the following SUBERR line is already in flight

	// Second schedule variation: when the k-th (k >= 1) eth_getLogs call of an event is scripted to fail, the
	// handler stays busy with the LAST entry of the batch before it (it does not receive it) until the failing
	// call has been answered: the fetch error arrives while an entry is waiting to be handed over.
	holdArmed bool
	holdLeft  int // entries still to receive before the handler gets busy
}

const busyFor = 120 * time.Millisecond

// HandleBlockEventsStream makes env the eventsyncer.EventHandler: the driver loop itself reads the
// channel the execution client writes to.
func (e *env) HandleBlockEventsStream(logs <-chan executionclient.BlockLogs, executeTasks bool) (uint64, error) {
	if e.histMode {
		e.histLast = 0
		if e.wait(logs, false) == stStall {
			// SyncHistory would wait for the fetch forever: cancel it and read the channel to its end
			e.out.ViolF("the client stalled during the historical fetch (no reaction within %v, in each of 3 attempts)", e.limit)
			e.cancelOp()
			last := e.histLast
			e.wait(logs, false)
			e.histLast = last
		}
		return e.histLast, nil
	}
	e.streamLoop(logs)
	return 0, nil
}

func (e *env) ensureClient() {
	if e.ec != nil {
		return
	}
	e.node = newNode(e.chain)
	e.met = &metricsRec{ch: make(chan uint64), quit: make(chan struct{})}
	e.fatal = &atomic.Bool{}
	e.base, e.stop = context.WithCancel(context.Background())
	logger := zap.New(fatalCore{e.fatal}, zap.WithFatalHook(zapcore.WriteThenGoexit))
	ec, err := executionclient.New(e.base, e.node.url, contractAddr,
		executionclient.WithLogger(logger),
		executionclient.WithMetrics(e.met),
		executionclient.WithFollowDistance(e.follow),
		executionclient.WithLogBatchSize(e.batch),
		executionclient.WithConnectionTimeout(5*time.Second),
		executionclient.WithReconnectionInitialInterval(time.Millisecond),
		// reconnect panics once its doubling interval reaches the maximum; keep that out of reach
		executionclient.WithReconnectionMaxInterval(time.Hour),
	)
	if err != nil {
		fmt.Fprintln(os.Stderr, "cannot connect to the fake node:", err)
		os.Exit(3)
	}
	e.ec = ec
	e.es = eventsyncer.New(nil, ec, e)
}

func (e *env) closeClient() {
	if e.ec == nil {
		return
	}
	e.stop()
	close(e.met.quit)
	_ = e.ec.Close()
	e.node.close()
	e.ec, e.node = nil, nil
}

func (e *env) resetOp() {
	e.qs, e.es2, e.ms, e.nq = nil, nil, nil, 0
	e.lastDrop = false
	e.holdArmed = false
}

// flush prints what the implementation did during the current operation, in canonical order.
func (e *env) flush() {
	for _, q := range e.qs {
		e.out.Obs("q %d %d", q[0], q[1])
	}
	for _, bl := range e.es2 {
		s := fmt.Sprintf("e %d %d", bl.BlockNumber, len(bl.Logs))
		for _, l := range bl.Logs {
			s += fmt.Sprintf(" %d:%d", l.TxIndex, l.Index)
		}
		e.out.Obs("%s", s)
	}
	for _, v := range e.ms {
		e.out.Obs("m %d", v)
	}
	e.resetOp()
}

// wait serves the client until it is quiescent again and returns the new state.  With head set,
// the second ExecutionClientLastFetchedBlock call of the operation marks the end of the head case
// of streamLogsToChan (the first one comes from fetchLogsInBatches when all batches are done).
func (e *env) wait(logs <-chan executionclient.BlockLogs, head bool) int {
	timer := time.NewTimer(e.limit)
	defer timer.Stop()
	var holdSince time.Time
	for {
		lc := logs
		if e.holdArmed && e.holdLeft == 0 {
			if holdSince.IsZero() {
				holdSince = time.Now()
			}
			if time.Since(holdSince) < 400*time.Millisecond {
				lc = nil // busy: the entry offered by the client has to wait
			} else {
				e.holdArmed = false // the failing call did not come: give up the variation
			}
		}
		var poll <-chan time.Time
		if lc == nil {
			poll = time.After(50 * time.Millisecond)
		}
		select {
		case <-poll:
			continue
		case bl, ok := <-lc:
			if e.holdArmed && e.holdLeft > 0 {
				e.holdLeft--
			}
			if !ok {
				if e.fatal.Load() {
					return stFatal
				}
				return stDone
			}
			e.es2 = append(e.es2, bl)
			e.histLast = bl.BlockNumber
			if bl.BlockNumber != ^uint64(0) {
				e.cursor = bl.BlockNumber + 1
			}
			if e.mon != nil {
				e.mon.entry(bl)
			}
		case r := <-e.node.subReq:
			e.pending = r
			return stSub
		case r := <-e.node.logReq:
			e.qs = append(e.qs, [2]uint64{r.from, r.to})
			i := e.nq
			e.nq++
			if e.nq > 400 {
				// a fetch that does not end (e.g. restarted far below the start block)
				e.out.ViolF("more than 400 eth_getLogs calls for one event (last: %d..%d)", r.from, r.to)
				r.reply <- repErr
				return stStall
			}
			switch {
			case e.fs.on && i == e.fs.k && e.fs.kind == "err":
				r.reply <- repErr
				if e.holdArmed && e.holdLeft == 0 {
					// the handler was busy with the last entry of the previous batch while this fetch failed
					e.out.Count("schedule-fetch-error-while-handler-busy")
					time.Sleep(busyFor / 2) // the client stores the error and closes its stream
				}
				e.holdArmed = false
			case e.fs.on && i == e.fs.k && e.fs.kind == "drop":
				time.Sleep(e.delay)
				e.node.lis.cutAll()
				e.lastDrop = true
				r.reply <- repGone
			case e.fs.on && i == e.fs.k && e.fs.kind == "cancel":
				// the request stays unanswered (its handler ends with the node): an answer could
				// overtake the cancellation and send the client into reconnect with a dead context
				if e.cancelOp != nil {
					e.cancelOp()
				}
			default:
				r.reply <- repOK
				if e.fs.on && e.fs.kind == "err" && i+1 == e.fs.k && e.mon != nil {
					// the next call fails: count the entries this batch will deliver
					n := 0
					for b := r.from; b <= r.to && b >= r.from; b++ {
						if len(visible(e.chain[b])) > 0 {
							n++
						}
					}
					if n > 0 {
						e.holdArmed, e.holdLeft = true, n-1
					}
				}
				if e.busyErr && i == 0 {
					e.busyErr = false
					time.Sleep(busyFor / 3) // the client packs the answer and offers the first entry
					e.node.notifyBogus()
					e.errPlanted = true
					e.out.Count("schedule-suberr-while-handler-busy")
					time.Sleep(busyFor) // ... while the handler is still busy with something else
				}
			}
		case v := <-e.met.ch:
			e.ms = append(e.ms, v)
			if head && len(e.ms) == 2 {
				return stIdle
			}
		case <-timer.C:
			e.rec.stalled = true
			if e.lastDrop {
				e.rec.retryable = true
			}
			return stStall
		}
	}
}

func (e *env) status() {
	e.flush()
	e.out.Obs("st %s", stNames[e.state])
}

// endStream cancels a stream that is still running and reads the channel until it is closed.
func (e *env) endStream(logs <-chan executionclient.BlockLogs) {
	// A pending eth_subscribe is left unanswered (its handler ends with the node): answering it
	// with an error could overtake the cancellation and send the client into reconnect.
	if e.cancelOp != nil {
		e.cancelOp()
	}
	e.pending = nil
	e.fs = failspec{}
	for i := 0; i < 50; i++ {
		s := e.wait(logs, false)
		if s == stDone || s == stFatal || s == stStall {
			break
		}
	}
	if len(e.es2) > 0 {
		e.out.ViolF("%d entries delivered after the context was cancelled", len(e.es2))
	}
	e.resetOp()
}

func isStreamEvent(w string) bool {
	switch w {
	case "SUBOK", "SUBFAIL", "HEAD", "SUBERR", "DROP", "CANCEL", "DIALFAIL":
		return true
	}
	return false
}

func parseFail(w []string) failspec {
	if len(w) >= 2 {
		k, _ := strconv.Atoi(w[0])
		return failspec{on: true, k: k, kind: w[1]}
	}
	return failspec{}
}

// streamLoop runs the stream events of the case; it is the body of the event handler.
func (e *env) streamLoop(logs <-chan executionclient.BlockLogs) {
	e.fs = failspec{}
	e.state = e.wait(logs, false)
	e.status() // status after the STREAM operation itself
	for e.pos < len(e.lines) && (e.state == stSub || e.state == stIdle) {
		w := e.lines[e.pos]
		if !isStreamEvent(w[0]) {
			break
		}
		e.pos++
		e.event(logs, w)
	}
	if e.state == stSub || e.state == stIdle {
		e.endStream(logs)
	} else if e.state == stStall {
		e.out.ViolF("the client stalled (no reaction within %v, in each of 3 attempts)", e.limit)
		e.endStream(logs)
	}
	e.state = stNone
}

func (e *env) event(logs <-chan executionclient.BlockLogs, w []string) {
	e.out.Op(w[0], "%s", strings.Join(w[1:], " "))
	e.fs = failspec{}
	switch w[0] {
	case "DIALFAIL":
		d, _ := strconv.Atoi(w[1])
		e.node.lis.setFailNext(d)
		return
	case "SUBOK":
		if e.state != stSub {
			e.out.Obs("ign")
			return
		}
		e.pending.reply <- true
		<-e.pending.ready
		e.pending = nil
		e.state = stIdle
	case "SUBFAIL":
		if e.state != stSub {
			e.out.Obs("ign")
			return
		}
		e.pending.reply <- false
		<-e.pending.ready
		e.pending = nil
		e.state = e.wait(logs, false)
	case "HEAD":
		if e.state != stIdle {
			e.out.Obs("ign")
			return
		}
		h := u(w[1])
		e.fs = parseFail(w[2:])
		if h >= e.follow {
			e.mon.allow(h - e.follow)
		}
		e.busyErr = !e.fs.on && h%2 == 1 && e.pos < len(e.lines) && e.lines[e.pos][0] == "SUBERR"
		e.errPlanted = false
		e.node.notifyHead(h)
		if h < e.follow || h-e.follow < e.cursor {
			e.busyErr = false
			break // the client ignores this head: nothing to wait for
		}
		e.state = e.wait(logs, true)
		e.busyErr = false
		if e.state == stIdle {
			e.cursor = e.ms[1] // the client's own report of where it continues
			e.mon.complete(h - e.follow)
		}
	case "SUBERR":
		if e.state != stIdle {
			e.out.Obs("ign")
			return
		}
		if !e.errPlanted {
			e.node.notifyBogus()
		}
		e.errPlanted = false
		e.state = e.wait(logs, false)
	case "DROP":
		if e.state != stIdle {
			e.out.Obs("ign")
			return
		}
		time.Sleep(e.delay) // see runCase: the client must have finished sending its last request
		e.node.lis.cutAll()
		e.lastDrop = true
		e.state = e.wait(logs, false)
	case "CANCEL":
		e.cancelOp()
		e.pending = nil // a pending eth_subscribe stays unanswered, see endStream
		e.state = e.wait(logs, false)
	}
	e.status()
}

func (e *env) doStream(w []string) {
	e.out.Op("STREAM", "%s", w[1])
	var from uint64
	if w[1] == "*" {
		if e.resume == nil {
			e.out.Obs("ign")
			return
		}
		from = *e.resume // the monitor goes on from where the history ended
	} else {
		from = u(w[1])
		e.mon = &monitor{out: e.out, chain: e.chain, from: from, front: from}
	}
	e.resume = nil
	e.ensureClient()
	ctx, cancel := context.WithCancel(e.base)
	e.cancelOp = cancel
	e.cursor = from
	e.histMode = false
	e.resetOp()
	_ = e.es.SyncOngoing(ctx, from) // returns when the handler (streamLoop) returns
	cancel()
}

func (e *env) doHist(w []string) {
	e.out.Op("HIST", "%s", strings.Join(w[1:], " "))
	from := u(w[1])
	e.ensureClient()
	e.node.setBlockNumber(u(w[2]), w[2] == "-")
	e.mon = &monitor{out: e.out, chain: e.chain, from: from, front: from}
	if w[2] != "-" && u(w[2]) >= e.follow {
		e.mon.allow(u(w[2]) - e.follow)
	}
	ctx, cancel := context.WithCancel(e.base)
	defer cancel()
	e.cancelOp = cancel
	e.fs = parseFail(w[3:])
	e.histMode = true
	e.resetOp()
	last, err := e.es.SyncHistory(ctx, from)
	e.histMode = false
	e.fs = failspec{}
	e.resume = nil
	e.flush()
	switch {
	case errors.Is(err, executionclient.ErrNothingToSync):
		e.out.Obs("h nothing")
		e.resume = &from
	case err == nil:
		e.out.Obs("h ok %d", last)
		next := last + 1
		e.resume = &next
		e.mon.complete(u(w[2]) - e.follow)
	default:
		e.out.Obs("h err")
	}
}

func u(s string) uint64 { v, _ := strconv.ParseUint(s, 10, 64); return v }

func runCaseOnce(out *recorder, lines [][]string, delay, limit time.Duration) {
	e := &env{out: out, rec: out, delay: delay, limit: limit, follow: 0, batch: 1, chain: map[uint64][]clog{}, lines: lines}
	defer e.closeClient()
	for e.pos < len(e.lines) {
		w := e.lines[e.pos]
		e.pos++
		switch w[0] {
		case "CFG":
			out.Op("CFG", "%s", strings.Join(w[1:], " "))
			e.closeClient()
			e.follow, e.batch = u(w[1]), u(w[2])
			if e.batch == 0 {
				e.batch = 1 // a zero batch size makes fetchLogsInBatches loop forever; not a case
			}
		case "BLK":
			out.Op("BLK", "%s", strings.Join(w[1:], " "))
			var ls []clog
			for i := 3; i+2 < len(w); i += 3 {
				ls = append(ls, clog{tx: u(w[i]), idx: u(w[i+1]), removed: w[i+2] == "1"})
			}
			if e.node != nil {
				e.node.mu.Lock()
			}
			e.chain[u(w[1])] = ls
			if e.node != nil {
				e.node.mu.Unlock()
			}
		case "HIST":
			e.doHist(w)
		case "STREAM":
			e.doStream(w)
		case "PACK":
			doPack(out, w, true)
		default:
			if isStreamEvent(w[0]) { // no stream is running
				out.Op(w[0], "%s", strings.Join(w[1:], " "))
				if w[0] != "DIALFAIL" {
					out.Obs("ign")
				}
			}
		}
	}
}

// ---- PackLogs directly ---------------------------------------------------------------------------------

func doPack(out sink, w []string, printObs bool) {
	out.Op("PACK", "%s", strings.Join(w[1:], " "))
	var in []ethtypes.Log
	for i := 2; i+2 < len(w); i += 3 {
		in = append(in, ethtypes.Log{BlockNumber: u(w[i]), TxIndex: uint(u(w[i+1])), Index: uint(u(w[i+2]))})
	}
	nodeOrder := sort.SliceIsSorted(in, func(i, j int) bool {
		if in[i].BlockNumber != in[j].BlockNumber {
			return in[i].BlockNumber < in[j].BlockNumber
		}
		return in[i].Index < in[j].Index
	})
	count := map[[3]uint64]int{}
	for _, l := range in {
		count[[3]uint64{l.BlockNumber, uint64(l.TxIndex), uint64(l.Index)}]++
	}
	res := executionclient.PackLogs(append([]ethtypes.Log{}, in...))
	reordered := false
	for i, bl := range res {
		if printObs {
			s := fmt.Sprintf("e %d %d", bl.BlockNumber, len(bl.Logs))
			for _, l := range bl.Logs {
				s += fmt.Sprintf(" %d:%d", l.TxIndex, l.Index)
			}
			out.Obs("%s", s)
		}
		if i > 0 && res[i-1].BlockNumber >= bl.BlockNumber {
			out.ViolF("PackLogs: block numbers not strictly increasing (%d then %d)", res[i-1].BlockNumber, bl.BlockNumber)
		}
		if len(bl.Logs) == 0 {
			out.ViolF("PackLogs: empty entry for block %d", bl.BlockNumber)
		}
		for j, l := range bl.Logs {
			count[[3]uint64{l.BlockNumber, uint64(l.TxIndex), uint64(l.Index)}]--
			if l.BlockNumber != bl.BlockNumber {
				out.ViolF("PackLogs: log of block %d in the entry of block %d", l.BlockNumber, bl.BlockNumber)
			}
			if j > 0 && bl.Logs[j-1].TxIndex > l.TxIndex {
				out.ViolF("PackLogs: block %d: transaction index %d before %d", bl.BlockNumber, bl.Logs[j-1].TxIndex, l.TxIndex)
			}
			if j > 0 && bl.Logs[j-1].Index > l.Index {
				reordered = true
			}
		}
	}
	for k, c := range count {
		if c != 0 {
			out.ViolF("PackLogs: log %v lost or duplicated (%+d)", k, -c)
			break
		}
	}
	if reordered {
		if nodeOrder {
			out.ViolF("PackLogs: input in node order (block, log index) but a block's logs come out in a different order")
		} else {
			out.Count("pack_log_index_order_not_restored")
		}
	}
	if nodeOrder {
		out.Count("pack_input_node_order")
	} else {
		out.Count("pack_input_unordered")
	}
}

// ---- generators ----------------------------------------------------------------------------------------

type gen struct {
	r     *hx.Rand
	lines [][]string
}

func (g *gen) add(format string, a ...any) {
	g.lines = append(g.lines, strings.Fields(fmt.Sprintf(format, a...)))
}

func (g *gen) chain(base uint64, n int) {
	r := g.r
	dens := hx.Pick(r, 2, 3, 5)
	for i := 0; i < n; i++ {
		if !r.Chance(dens, 10) {
			continue
		}
		k := 1 + r.Intn(4)
		if r.Chance(1, 12) {
			k = 13 + r.Intn(25) // more logs than sort.Slice's insertion-sort threshold
		}
		s := fmt.Sprintf("BLK %d %d", base+uint64(i), k)
		tx := uint64(r.Intn(3))
		idx := uint64(r.Intn(2))
		for j := 0; j < k; j++ {
			if r.Chance(1, 3) {
				tx += uint64(1 + r.Intn(3))
			}
			rm := 0
			if r.Chance(1, 6) {
				rm = 1
			}
			s += fmt.Sprintf(" %d %d %d", tx, idx, rm)
			idx += uint64(1 + r.Intn(2))
		}
		g.lines = append(g.lines, strings.Fields(s))
	}
}

func (g *gen) failSuffix() string {
	r := g.r
	if !r.Chance(1, 3) {
		return ""
	}
	kind := hx.Pick(r, "err", "err", "drop", "drop", "cancel")
	if kind == "cancel" && !r.Chance(1, 4) {
		kind = "err"
	}
	return fmt.Sprintf(" %d %s", r.Intn(3), kind)
}

func (g *gen) events(base, from uint64, follow uint64, span int, malformed bool) {
	r := g.r
	if malformed {
		for i, n := 0, 4+r.Intn(12); i < n; i++ {
			switch r.Intn(8) {
			case 0:
				g.add("SUBOK")
			case 1:
				g.add("SUBFAIL")
			case 2:
				g.add("SUBERR")
			case 3:
				g.add("DROP")
			case 4:
				if r.Chance(1, 4) {
					g.add("CANCEL")
				} else {
					g.add("SUBOK")
				}
			default:
				g.add("HEAD %d%s", base+uint64(r.Intn(span+10)), g.failSuffix())
			}
		}
		return
	}
	for r.Chance(1, 8) {
		g.add("SUBFAIL")
	}
	g.add("SUBOK")
	h := from + follow
	if r.Chance(1, 3) && h > base+2 {
		h -= uint64(1 + r.Intn(2))
	}
	for i, n := 0, 3+r.Intn(8); i < n; i++ {
		if r.Chance(1, 12) {
			g.add("DIALFAIL %d", 1+r.Intn(3))
		}
		switch r.Intn(12) {
		case 0:
			g.add("SUBERR")
			g.add("SUBOK")
		case 1:
			g.add("DROP")
			if r.Chance(1, 5) {
				g.add("SUBFAIL")
			}
			g.add("SUBOK")
		case 2:
			if r.Chance(1, 6) {
				g.add("CANCEL")
			}
		}
		switch r.Intn(10) {
		case 0: // an older head again
			if h > base+3 {
				g.add("HEAD %d", h-uint64(1+r.Intn(3)))
			}
		case 1: // same head again
			g.add("HEAD %d%s", h, g.failSuffix())
		default:
			h += uint64(r.Intn(5))
			fsuf := g.failSuffix()
			g.add("HEAD %d%s", h, fsuf)
			if fsuf != "" {
				for r.Chance(1, 6) {
					g.add("SUBFAIL")
				}
				g.add("SUBOK")
			}
		}
	}
	if r.Chance(3, 4) {
		g.add("SUBOK")
		g.add("HEAD %d", h+uint64(1+r.Intn(4)))
	}
}

func genCase(out *hx.Out, seed uint64, c int) {
	r := hx.NewRand(seed, "stream", uint64(c))
	g := &gen{r: r}
	base := hx.Pick(r, uint64(0), 0, 0, 1, 1000, 1<<40, 1<<63+5)
	follow := uint64(hx.Pick(r, 0, 0, 1, 2, 3, 8))
	batch := uint64(hx.Pick(r, 1, 1, 2, 3, 5, 5000))
	span := 14 + r.Intn(16)
	g.add("CFG %d %d", follow, batch)
	g.chain(base, span+6)
	from := base + uint64(r.Intn(6))
	malformed := r.Chance(1, 6)
	kind := r.Intn(10)
	switch {
	case kind < 6:
		g.add("STREAM %d", from)
		g.events(base, from, follow, span, malformed)
		out.Count("case_stream")
	case kind < 8:
		bn := from + follow + uint64(r.Intn(12))
		switch r.Intn(8) {
		case 0:
			g.add("HIST %d -", from)
		case 1:
			g.add("HIST %d %d", from, base+uint64(r.Intn(4)))
		default:
			g.add("HIST %d %d%s", from, bn, g.failSuffix())
		}
		out.Count("case_hist")
	default:
		bn := from + follow + uint64(r.Intn(10))
		if r.Chance(1, 6) {
			bn = base + uint64(r.Intn(3))
		}
		fsuf := ""
		if r.Chance(1, 8) {
			fsuf = g.failSuffix()
		}
		g.add("HIST %d %d%s", from, bn, fsuf)
		g.add("STREAM *")
		g.events(base, bn-min64(bn, follow)+1, follow, span, false)
		out.Count("case_sync")
	}
	if malformed {
		out.Count("case_malformed")
	}
	out.Case("gen seed=%d case=%d", seed, c)
	runCase(out, g.lines)
	out.End()
}

func min64(a, b uint64) uint64 {
	if a < b {
		return a
	}
	return b
}

// exhaustive: a fixed chain, heads 4,6,..; before/at each head one of 8 things happens.
var exChoices = []string{"none", "suberr", "drop", "ferr0", "ferr1", "fdrop0", "fdrop1", "suberr+subfail"}

func exhaustive(out *hx.Out, heads, shard, shards int, maxViol int) {
	total := 1
	for i := 0; i < heads; i++ {
		total *= len(exChoices)
	}
	cfgs := [][2]uint64{{1, 2}, {0, 1}, {2, 5}}
	for ci, cf := range cfgs {
		for code := 0; code < total; code++ {
			if (code+ci)%shards != shard {
				continue
			}
			if out.Viol >= maxViol {
				return
			}
			g := &gen{}
			g.add("CFG %d %d", cf[0], cf[1])
			g.add("BLK 3 2 0 0 0 1 1 0")
			g.add("BLK 4 1 0 0 0")
			g.add("BLK 6 3 0 0 0 0 1 1 2 2 0")
			g.add("BLK 7 1 0 0 1")
			g.add("BLK 9 1 1 0 0")
			g.add("BLK 10 2 0 0 0 0 1 0")
			g.add("BLK 12 1 0 0 0")
			g.add("STREAM 2")
			g.add("SUBOK")
			x := code
			var names []string
			for i := 0; i < heads; i++ {
				ch := exChoices[x%len(exChoices)]
				x /= len(exChoices)
				names = append(names, ch)
				h := uint64(4+2*i) + cf[0]
				switch ch {
				case "none":
					g.add("HEAD %d", h)
				case "suberr":
					g.add("SUBERR")
					g.add("SUBOK")
					g.add("HEAD %d", h)
				case "drop":
					g.add("DROP")
					g.add("SUBOK")
					g.add("HEAD %d", h)
				case "ferr0":
					g.add("HEAD %d 0 err", h)
					g.add("SUBOK")
				case "ferr1":
					g.add("HEAD %d 1 err", h)
					g.add("SUBOK")
				case "fdrop0":
					g.add("HEAD %d 0 drop", h)
					g.add("SUBOK")
				case "fdrop1":
					g.add("HEAD %d 1 drop", h)
					g.add("SUBOK")
				case "suberr+subfail":
					g.add("SUBERR")
					g.add("SUBFAIL")
					g.add("SUBOK")
					g.add("HEAD %d", h)
				}
			}
			g.add("HEAD %d", uint64(4+2*heads)+cf[0])
			out.Case("exhaustive cfg=%d/%d heads=%d %s", cf[0], cf[1], heads, strings.Join(names, ","))
			out.Count("case_exhaustive")
			runCase(out, g.lines)
			out.End()
		}
	}
}

func genPack(out *hx.Out, seed uint64, n int, long bool) {
	for c := 0; c < n; c++ {
		r := hx.NewRand(seed, "pack", uint64(c))
		var logs [][3]uint64
		nb := 1 + r.Intn(4)
		idx := map[uint64]uint64{}
		size := r.Intn(13)
		ordered := false
		if long {
			size = 13 + r.Intn(70)
		} else if r.Chance(1, 3) {
			size, ordered = 13+r.Intn(50), true
		}
		tx := map[uint64]uint64{}
		for i := 0; i < size; i++ {
			b := uint64(5 + r.Intn(nb))
			if r.Chance(1, 3) {
				tx[b] += uint64(r.Intn(3))
			}
			logs = append(logs, [3]uint64{b, tx[b], idx[b]})
			idx[b]++
		}
		if ordered || r.Chance(1, 4) {
			sort.SliceStable(logs, func(i, j int) bool { return logs[i][0] < logs[j][0] })
		} else if r.Chance(1, 2) {
			// arbitrary order, also inside a block
			for i := len(logs) - 1; i > 0; i-- {
				j := r.Intn(i + 1)
				logs[i], logs[j] = logs[j], logs[i]
			}
		}
		s := fmt.Sprintf("PACK %d", len(logs))
		for _, l := range logs {
			s += fmt.Sprintf(" %d %d %d", l[0], l[1], l[2])
		}
		out.Case("pack seed=%d case=%d long=%v", seed, c, long)
		doPack(out, strings.Fields(s), !long)
		out.End()
	}
}

// ---- replay ----------------------------------------------------------------------------------------------

func replay(out *hx.Out, path string) {
	fh, err := os.Open(path)
	if err != nil {
		fmt.Fprintln(os.Stderr, err)
		os.Exit(2)
	}
	defer fh.Close()
	var lines [][]string
	sc := bufio.NewScanner(fh)
	sc.Buffer(make([]byte, 1<<20), 1<<26)
	for sc.Scan() {
		w := strings.Fields(sc.Text())
		if len(w) == 0 {
			continue
		}
		switch w[0] {
		case "CASE":
			out.Case("replay %s", strings.Join(w[2:], " "))
			lines = nil
		case "END":
			runCase(out, lines)
			out.End()
			lines = nil
		case "OBS", "MON", "#", "DIST", "SUMMARY":
		default:
			if strings.HasPrefix(w[0], "#") {
				continue
			}
			lines = append(lines, w)
		}
	}
}

func main() {
	if len(os.Args) < 2 {
		fmt.Fprintln(os.Stderr, "usage: hx-stream gen|exhaustive|pack|packx|replay ...")
		os.Exit(2)
	}
	mode := os.Args[1]
	fs := flag.NewFlagSet(mode, flag.ExitOnError)
	seed := fs.Uint64("seed", 1, "seed")
	n := fs.Int("n", 100, "cases")
	heads := fs.Int("heads", 3, "heads (exhaustive)")
	shard := fs.String("shard", "0/1", "i/m (exhaustive)")
	maxViol := fs.Int("maxviol", 12, "stop after this many monitor violations")
	_ = fs.Parse(os.Args[2:])
	out := hx.NewOut()
	defer out.Close()
	switch mode {
	case "gen":
		for c := 0; c < *n && out.Viol < *maxViol; c++ {
			genCase(out, *seed, c)
		}
	case "exhaustive":
		var i, m int
		fmt.Sscanf(*shard, "%d/%d", &i, &m)
		if m <= 0 {
			m = 1
		}
		exhaustive(out, *heads, i, m, *maxViol)
	case "pack":
		genPack(out, *seed, *n, false)
	case "packx":
		genPack(out, *seed, *n, true)
	case "replay":
		replay(out, fs.Arg(0))
	default:
		fmt.Fprintln(os.Stderr, "unknown mode", mode)
		os.Exit(2)
	}
}
