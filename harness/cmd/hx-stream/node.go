package main

// The fake execution node: a go-ethereum rpc.Server over websocket on an httptest server.  Every
// eth_subscribe(newHeads) and eth_getLogs request is handed to the driver, which decides the answer
// according to the schedule; the listener wrapper lets the driver cut accepted connections
// (httptest's CloseClientConnections does not reach hijacked websocket connections).

import (
	"context"
	"errors"
	"math/big"
	"net"
	"net/http/httptest"
	"sort"
	"strings"
	"sync"

	ethcommon "github.com/ethereum/go-ethereum/common"
	"github.com/ethereum/go-ethereum/common/hexutil"
	ethtypes "github.com/ethereum/go-ethereum/core/types"
	"github.com/ethereum/go-ethereum/rpc"
)

var contractAddr = ethcommon.HexToAddress("0x00000000000000000000000000000000000c0de5")

type clog struct {
	tx, idx uint64
	removed bool
}

type subReq struct {
	reply chan bool     // driver: true = answer with a subscription, false = answer with an error
	ready chan struct{} // closed by the handler once the subscription is registered
}

const (
	repOK = iota
	repErr
	repGone // connection cut or caller cancelled: whatever is returned never reaches the client
)

type logReq struct {
	from, to uint64
	reply    chan int
}

type cutListener struct {
	net.Listener
	mu       sync.Mutex
	conns    []net.Conn
	failNext int // number of next accepted connections to close at once (failing dials)
	accepted int
}

func (l *cutListener) Accept() (net.Conn, error) {
	c, err := l.Listener.Accept()
	if err != nil {
		return c, err
	}
	l.mu.Lock()
	l.accepted++
	if l.failNext > 0 {
		l.failNext--
		l.mu.Unlock()
		_ = c.Close()
		return c, nil
	}
	l.conns = append(l.conns, c)
	l.mu.Unlock()
	return c, nil
}

func (l *cutListener) cutAll() {
	l.mu.Lock()
	cs := l.conns
	l.conns = nil
	l.mu.Unlock()
	for _, c := range cs {
		_ = c.Close()
	}
}

func (l *cutListener) setFailNext(n int) {
	l.mu.Lock()
	l.failNext = n
	l.mu.Unlock()
}

type node struct {
	srv    *httptest.Server
	rpcs   *rpc.Server
	lis    *cutListener
	url    string
	subReq chan *subReq
	logReq chan *logReq
	quit   chan struct{}

	mu       sync.Mutex
	chain    map[uint64][]clog
	notifier *rpc.Notifier
	subID    rpc.ID
	bn       uint64
	bnErr    bool
}

type ethAPI struct{ n *node }

func newNode(chain map[uint64][]clog) *node {
	n := &node{
		subReq: make(chan *subReq),
		logReq: make(chan *logReq),
		quit:   make(chan struct{}),
		chain:  chain,
	}
	n.rpcs = rpc.NewServer()
	if err := n.rpcs.RegisterName("eth", &ethAPI{n}); err != nil {
		panic(err)
	}
	n.srv = httptest.NewUnstartedServer(n.rpcs.WebsocketHandler([]string{"*"}))
	n.lis = &cutListener{Listener: n.srv.Listener}
	n.srv.Listener = n.lis
	n.srv.Start()
	n.url = "ws" + strings.TrimPrefix(n.srv.URL, "http")
	return n
}

func (n *node) close() {
	close(n.quit)
	n.lis.cutAll()
	n.rpcs.Stop()
	n.srv.Close()
}

// BlockNumber serves eth_blockNumber.
func (a *ethAPI) BlockNumber() (hexutil.Uint64, error) {
	a.n.mu.Lock()
	defer a.n.mu.Unlock()
	if a.n.bnErr {
		return 0, errors.New("scripted eth_blockNumber failure")
	}
	return hexutil.Uint64(a.n.bn), nil
}

type logQuery struct {
	FromBlock string `json:"fromBlock"`
	ToBlock   string `json:"toBlock"`
}

// GetLogs serves eth_getLogs: the driver decides, the chain supplies the logs in block order,
// each block's logs in chain order (what an execution node does).
func (a *ethAPI) GetLogs(ctx context.Context, q logQuery) ([]*ethtypes.Log, error) {
	from, err1 := hexutil.DecodeUint64(q.FromBlock)
	to, err2 := hexutil.DecodeUint64(q.ToBlock)
	if err1 != nil || err2 != nil {
		return nil, errors.New("fake node: unsupported block tag in eth_getLogs")
	}
	req := &logReq{from: from, to: to, reply: make(chan int, 1)}
	select {
	case a.n.logReq <- req:
	case <-a.n.quit:
		return nil, errors.New("fake node closed")
	}
	var rep int
	select {
	case rep = <-req.reply:
	case <-a.n.quit:
		return nil, errors.New("fake node closed")
	}
	switch rep {
	case repOK:
		return a.n.logsIn(from, to), nil
	case repErr:
		return nil, errors.New("scripted eth_getLogs failure")
	}
	return nil, errors.New("gone")
}

func (n *node) logsIn(from, to uint64) []*ethtypes.Log {
	n.mu.Lock()
	defer n.mu.Unlock()
	var keys []uint64
	for b := range n.chain {
		if b >= from && b <= to {
			keys = append(keys, b)
		}
	}
	sort.Slice(keys, func(i, j int) bool { return keys[i] < keys[j] })
	res := []*ethtypes.Log{}
	for _, b := range keys {
		for _, l := range n.chain[b] {
			res = append(res, &ethtypes.Log{
				Address: contractAddr, Topics: []ethcommon.Hash{}, Data: []byte{},
				BlockNumber: b, TxIndex: uint(l.tx), Index: uint(l.idx), Removed: l.removed,
			})
		}
	}
	return res
}

// NewHeads serves eth_subscribe("newHeads").
func (a *ethAPI) NewHeads(ctx context.Context) (*rpc.Subscription, error) {
	notifier, ok := rpc.NotifierFromContext(ctx)
	if !ok {
		return nil, rpc.ErrNotificationsUnsupported
	}
	req := &subReq{reply: make(chan bool, 1), ready: make(chan struct{})}
	select {
	case a.n.subReq <- req:
	case <-a.n.quit:
		return nil, errors.New("fake node closed")
	}
	var grant bool
	select {
	case grant = <-req.reply:
	case <-a.n.quit:
		return nil, errors.New("fake node closed")
	}
	if !grant {
		close(req.ready)
		return nil, errors.New("scripted eth_subscribe failure")
	}
	sub := notifier.CreateSubscription()
	a.n.mu.Lock()
	a.n.notifier, a.n.subID = notifier, sub.ID
	a.n.mu.Unlock()
	close(req.ready)
	return sub, nil
}

func (n *node) current() (*rpc.Notifier, rpc.ID) {
	n.mu.Lock()
	defer n.mu.Unlock()
	return n.notifier, n.subID
}

// notifyHead pushes a new head to the current subscription.
func (n *node) notifyHead(h uint64) {
	nt, id := n.current()
	if nt == nil {
		return
	}
	_ = nt.Notify(id, &ethtypes.Header{Number: new(big.Int).SetUint64(h), Difficulty: big.NewInt(0)})
}

// notifyBogus pushes something that is not a header: the client's subscription fails with a
// decoding error while the connection stays up.
func (n *node) notifyBogus() {
	nt, id := n.current()
	if nt == nil {
		return
	}
	_ = nt.Notify(id, "not-a-header")
}

func (n *node) setBlockNumber(bn uint64, fail bool) {
	n.mu.Lock()
	n.bn, n.bnErr = bn, fail
	n.mu.Unlock()
}
