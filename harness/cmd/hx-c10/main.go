// hx-c10: messages produced by correct operators are never rejected by correct peers (C10).
//
// Real controllers/instances of all operators of a committee (4 or 7) run a duty of a consensus role
// in lock-step rounds that respect the protocol's timing assumptions: within a round every message a
// correct operator broadcasts reaches every correct peer (in a random or the sending order) before the
// round's timeout, <= f operators are silent or crash at a random point, and when a round does not
// decide every undecided operator times out.  Every broadcast is validated by every peer's own REAL
// message validator (fresh per run, fed in delivery order) at a reception time inside the round's
// time window (start / middle / end).  Monitor: no message of a correct operator is classified reject;
// in fault-free in-order runs every message is accepted.  Partial-signature messages (pre- and
// post-consensus, all roles) built by the spec's honest message constructors are validated too.
//
//	hx-c10 run -seed S -n N [-size 4|7]
//	hx-c10 replay FILE
package main

import (
	"bufio"
	"errors"
	"flag"
	"fmt"
	"os"
	"strconv"
	"strings"
	"time"

	eth2apiv1 "github.com/attestantio/go-eth2-client/api/v1"
	"github.com/attestantio/go-eth2-client/spec/phase0"
	specqbft "github.com/bloxapp/ssv-spec/qbft"
	spectypes "github.com/bloxapp/ssv-spec/types"
	"github.com/bloxapp/ssv-spec/types/testingutils"
	"go.uber.org/zap"

	"github.com/bloxapp/ssv/message/validation"
	"github.com/bloxapp/ssv/networkconfig"
	"github.com/bloxapp/ssv/operator/duties/dutystore"
	"github.com/bloxapp/ssv/operator/storage"
	beaconprotocol "github.com/bloxapp/ssv/protocol/v2/blockchain/beacon"
	"github.com/bloxapp/ssv/protocol/v2/qbft"
	"github.com/bloxapp/ssv/protocol/v2/qbft/controller"
	"github.com/bloxapp/ssv/protocol/v2/qbft/instance"
	"github.com/bloxapp/ssv/protocol/v2/qbft/roundtimer"
	qbftstorage "github.com/bloxapp/ssv/protocol/v2/qbft/storage"
	ssvtypes "github.com/bloxapp/ssv/protocol/v2/types"
	"github.com/bloxapp/ssv/storage/basedb"
	"github.com/bloxapp/ssv/storage/kv"

	"verifharness/hx"
)

var logger = zap.NewNop()

var roles = []spectypes.BeaconRole{spectypes.BNRoleAttester, spectypes.BNRoleAggregator, spectypes.BNRoleProposer,
	spectypes.BNRoleSyncCommittee, spectypes.BNRoleSyncCommitteeContribution}

type nopStore struct{}

func (nopStore) GetHighestInstance([]byte) (*qbftstorage.StoredInstance, error) { return nil, nil }
func (nopStore) GetInstancesInRange([]byte, specqbft.Height, specqbft.Height) ([]*qbftstorage.StoredInstance, error) {
	return nil, nil
}
func (nopStore) SaveInstance(*qbftstorage.StoredInstance) error                     { return nil }
func (nopStore) SaveHighestInstance(*qbftstorage.StoredInstance) error              { return nil }
func (nopStore) SaveHighestAndHistoricalInstance(*qbftstorage.StoredInstance) error { return nil }
func (nopStore) GetInstance([]byte, specqbft.Height) (*qbftstorage.StoredInstance, error) {
	return nil, nil
}
func (nopStore) CleanAllInstances(*zap.Logger, []byte) error { return nil }

type recNet struct{ msgs []*spectypes.SSVMessage }

func (r *recNet) Broadcast(m *spectypes.SSVMessage) error { r.msgs = append(r.msgs, m); return nil }
func (r *recNet) take() []*spectypes.SSVMessage           { x := r.msgs; r.msgs = nil; return x }

type nopTimer struct{}

func (nopTimer) TimeoutForRound(specqbft.Height, specqbft.Round) {}

type world struct {
	ks      *testingutils.TestKeySet
	size    int
	netCfg  networkconfig.NetworkConfig
	ns      storage.Storage
	duties  *dutystore.Store
	share   *ssvtypes.SSVShare
	epoch   uint64
	timeCfg *roundtimer.RoundTimer
}

func must(err error) {
	if err != nil {
		panic(err)
	}
}

func newWorld(size int) *world {
	w := &world{size: size}
	switch size {
	case 7:
		w.ks = testingutils.Testing7SharesSet()
	default:
		w.ks, w.size = testingutils.Testing4SharesSet(), 4
	}
	w.netCfg = networkconfig.TestNetwork
	db, err := kv.NewInMemory(logger, basedb.Options{})
	must(err)
	w.ns, err = storage.NewNodeStorage(logger, db)
	must(err)
	base := testingutils.TestingShare(w.ks)
	w.share = &ssvtypes.SSVShare{Share: *base, Metadata: ssvtypes.Metadata{
		BeaconMetadata: &beaconprotocol.ValidatorMetadata{Status: eth2apiv1.ValidatorStateActiveOngoing, Index: 101}}}
	w.share.ValidatorPubKey = w.ks.ValidatorPK.Serialize()
	must(w.ns.Shares().Save(nil, w.share))
	// the duty takes place a few epochs before "now" so that attester messages are inside their TTL whatever
	// the wall clock is; reception times are explicit
	w.epoch = uint64(w.netCfg.Beacon.EstimatedCurrentEpoch())
	w.duties = dutystore.New()
	for ep := w.epoch - 2; ep <= w.epoch+1; ep++ {
		for s := ep * 32; s < (ep+1)*32; s++ {
			w.duties.Proposer.Add(phase0.Epoch(ep), phase0.Slot(s), 101, &eth2apiv1.ProposerDuty{Slot: phase0.Slot(s), ValidatorIndex: 101}, true)
		}
		w.duties.SyncCommittee.Add(ep/256, 101, &eth2apiv1.SyncCommitteeDuty{ValidatorIndex: 101}, true)
	}
	return w
}

func (w *world) validator() validation.MessageValidator {
	return validation.NewMessageValidator(w.netCfg, validation.WithNodeStorage(w.ns), validation.WithDutyStore(w.duties))
}

// roundStart is the moment round r begins for the role, measured from the slot start, as the real
// round timer computes it: base by role + cumulative per-round allowance.
func (w *world) roundStart(role spectypes.BeaconRole, r uint64) time.Duration {
	var base time.Duration
	switch role {
	case spectypes.BNRoleAttester, spectypes.BNRoleSyncCommittee:
		base = w.netCfg.Beacon.SlotDurationSec() / 3
	case spectypes.BNRoleAggregator, spectypes.BNRoleSyncCommitteeContribution:
		base = w.netCfg.Beacon.SlotDurationSec() / 3 * 2
	}
	d := base
	for k := uint64(1); k < r; k++ {
		if k <= uint64(roundtimer.QuickTimeoutThreshold) {
			d += roundtimer.QuickTimeout
		} else {
			d += roundtimer.SlowTimeout
		}
	}
	return d
}

func (w *world) roundLen(r uint64) time.Duration {
	if r <= uint64(roundtimer.QuickTimeoutThreshold) {
		return roundtimer.QuickTimeout
	}
	return roundtimer.SlowTimeout
}

type op struct {
	id      spectypes.OperatorID
	ctrl    *controller.Controller
	net     *recNet
	val     validation.MessageValidator
	silent  bool
	crashAt int // stops sending after this many broadcasts (-1: never)
	sent    int
}

func valueFor(role spectypes.BeaconRole, slot uint64, v int) []byte {
	// the consensus value is opaque to the instance; 8 bytes are enough (the value check is the driver's)
	return []byte{byte(role), byte(slot), byte(slot >> 8), byte(v), 1, 2, 3, 4}
}

func classify(err error) (string, string) {
	if err == nil {
		return "accept", "-"
	}
	var ve validation.Error
	if errors.As(err, &ve) {
		t := strings.ReplaceAll(ve.Text(), " ", "_")
		if ve.Reject() {
			return "reject", t
		}
		return "ignore", t
	}
	return "ignore", "other:" + strings.ReplaceAll(strings.SplitN(err.Error(), ":", 2)[0], " ", "_")
}

func describe(m *spectypes.SSVMessage) string {
	switch m.MsgType {
	case spectypes.SSVConsensusMsgType:
		sm := &specqbft.SignedMessage{}
		if sm.Decode(m.Data) != nil {
			return "cons ?"
		}
		pr := 0
		if sm.Message.RoundChangePrepared() {
			pr = int(sm.Message.DataRound)
		}
		return fmt.Sprintf("cons type=%d h=%d r=%d signers=%v prepared=%d rcj=%d pj=%d", sm.Message.MsgType, sm.Message.Height,
			sm.Message.Round, sm.Signers, pr, len(sm.Message.RoundChangeJustification), len(sm.Message.PrepareJustification))
	case spectypes.SSVPartialSignatureMsgType:
		pm := &spectypes.SignedPartialSignatureMessage{}
		if pm.Decode(m.Data) != nil {
			return "partial ?"
		}
		return fmt.Sprintf("partial type=%d slot=%d signer=%d n=%d", pm.Message.Type, pm.Message.Slot, pm.Signer, len(pm.Message.Messages))
	}
	return "other"
}

// oneRun: one duty, lock-step rounds.
func oneRun(out *hx.Out, w *world, seed, c uint64) {
	r := hx.NewRand(seed, "c10", c)
	role := roles[r.Intn(len(roles))]
	f := (w.size - 1) / 3
	nfaulty := r.Intn(f + 1)
	faultFree := nfaulty == 0 && r.Chance(1, 2)
	inOrder := faultFree
	slot := (w.epoch-1)*32 + uint64(r.Intn(32))
	if role == spectypes.BNRoleProposer || role == spectypes.BNRoleSyncCommittee || role == spectypes.BNRoleSyncCommitteeContribution {
		slot = w.epoch*32 + uint64(r.Intn(8)) // short TTL roles: still validated at explicit times
	}
	msgID := spectypes.NewMsgID(w.netCfg.Domain, w.share.ValidatorPubKey, role)
	out.Case("run seed=%d case=%d size=%d role=%d slot=%d faulty=%d faultfree=%d", seed, c, w.size, int(role), slot, nfaulty, b2i(faultFree))
	ops := map[spectypes.OperatorID]*op{}
	var ids []spectypes.OperatorID
	for i := 1; i <= w.size; i++ {
		id := spectypes.OperatorID(i)
		ids = append(ids, id)
		sh := w.share.Share
		sh.OperatorID = id
		sh.SharePubKey = w.ks.Shares[id].GetPublicKey().Serialize()
		o := &op{id: id, net: &recNet{}, val: w.validator(), crashAt: -1}
		cfg := &qbft.Config{
			Signer: testingutils.NewTestingKeyManager(), SigningPK: sh.SharePubKey, Domain: w.netCfg.Domain,
			ValueCheckF: func([]byte) error { return nil },
			ProposerF: func(state *specqbft.State, round specqbft.Round) spectypes.OperatorID {
				return specqbft.RoundRobinProposer(state, round)
			},
			Storage: nopStore{}, Network: o.net, Timer: nopTimer{}, SignatureVerification: true,
		}
		shc := sh
		o.ctrl = controller.NewController(msgID[:], &shc, cfg, false)
		ops[id] = o
	}
	// faulty operators: silent from the start, or crashing after k broadcasts
	for k := 0; k < nfaulty; {
		o := ops[ids[r.Intn(len(ids))]]
		if o.silent || o.crashAt >= 0 {
			continue
		}
		if r.Chance(1, 2) {
			o.silent = true
		} else {
			o.crashAt = r.Intn(4)
		}
		k++
	}
	// sometimes the round-1 leader is slow: its proposal is withheld in round 1 (a dropped message), or commits of
	// round 1 are withheld, to produce unprepared and prepared round changes
	withholdProposal := !faultFree && r.Chance(1, 3)
	withholdCommits := !faultFree && !withholdProposal && r.Chance(1, 3)
	// or the prepares of round 1 are lost: everybody has seen the leader's value, nobody is prepared, and the
	// leader of round 2 proposes (and the committee decides) ANOTHER value
	withholdPrepares := !faultFree && !withholdProposal && !withholdCommits && r.Chance(1, 2)

	slotStart := w.netCfg.Beacon.GetSlotStartTime(phase0.Slot(slot))
	height := specqbft.Height(slot)
	// a broadcast and the peers it has not reached yet
	type item struct {
		m    *spectypes.SSVMessage
		left []spectypes.OperatorID
	}
	var pending []*item
	emit := func(o *op) {
		for _, m := range o.net.take() {
			if o.silent || (o.crashAt >= 0 && o.sent >= o.crashAt) {
				continue
			}
			o.sent++
			pending = append(pending, &item{m: m, left: append([]spectypes.OperatorID{}, ids...)})
		}
	}
	for _, id := range ids {
		o := ops[id]
		_ = o.ctrl.StartNewInstance(logger, height, valueFor(role, slot, int(id)))
		emit(o)
	}
	round := uint64(1)
	allAccepted := true
	for ; round <= 6; round++ {
		// deliver everything of this round (messages produced while delivering belong to the same round).
		// In-order runs hand each broadcast to all peers at once; otherwise every (broadcast, peer) pair is
		// delivered on its own, so that different peers see different orders.
		for guard := 0; len(pending) > 0 && guard < 40000; guard++ {
			k := 0
			if !inOrder {
				k = r.Intn(len(pending))
				if k > 5 {
					k = r.Intn(6)
				}
			}
			it := pending[k]
			var to []spectypes.OperatorID
			if inOrder {
				to, it.left = it.left, nil
			} else {
				j := r.Intn(len(it.left))
				to = []spectypes.OperatorID{it.left[j]}
				it.left = append(it.left[:j:j], it.left[j+1:]...)
			}
			if len(it.left) == 0 {
				pending = append(pending[:k:k], pending[k+1:]...)
			}
			m := it.m
			sm := &specqbft.SignedMessage{}
			_ = sm.Decode(m.Data)
			if round == 1 && withholdProposal && sm.Message.MsgType == specqbft.ProposalMsgType {
				continue
			}
			if round == 1 && withholdCommits && sm.Message.MsgType == specqbft.CommitMsgType && len(sm.Signers) == 1 {
				continue
			}
			if round == 1 && withholdPrepares && sm.Message.MsgType == specqbft.PrepareMsgType {
				continue
			}
			// reception time inside the round's window
			off := w.roundStart(role, round) + time.Duration(hx.Pick(r, 1, 50, 99))*w.roundLen(round)/100
			recv := slotStart.Add(off)
			out.Op("VALIDATE", "round=%d at=%dms to=%v %s", round, off.Milliseconds(), to, describe(m))
			for _, id := range to {
				o := ops[id]
				_, _, err := validation.VerifValidateSSVMessage(o.val, m, recv)
				class, text := classify(err)
				out.Obs("peer=%d %s %s", id, class, text)
				out.Count("class-" + class)
				if class == "reject" {
					out.ViolF("c10 message of correct operator(s) %v (%s) rejected by peer %d at round %d: %s", sm.Signers, describe(m), id, round, text)
				}
				if class != "accept" {
					allAccepted = false
					out.Count("nonaccept-" + text)
				}
				// the peer's protocol layer processes it
				if !o.silent {
					_, _ = o.ctrl.ProcessMsg(logger, sm)
					emit(o)
				}
			}
		}
		decided := true
		for _, id := range ids {
			o := ops[id]
			if o.silent || (o.crashAt >= 0 && o.sent >= o.crashAt) {
				continue
			}
			if inst := o.ctrl.StoredInstances.FindInstance(height); inst == nil || !inst.State.Decided {
				decided = false
			}
		}
		if decided {
			break
		}
		// the round's timer fires at every undecided operator
		for _, id := range ids {
			o := ops[id]
			inst := o.ctrl.StoredInstances.FindInstance(height)
			if o.silent || inst == nil || inst.State.Decided {
				continue
			}
			_ = inst.UponRoundTimeout(logger)
			emit(o)
		}
	}
	out.Count(fmt.Sprintf("rounds-%d", round))
	if faultFree && !allAccepted {
		out.ViolF("c10 fault-free in-order run with a message that was not accepted")
	}
	out.End()
}

// partialCase validates the spec's honest pre-/post-consensus messages of all roles.
func partialCase(out *hx.Out, w *world, seed, c uint64) {
	r := hx.NewRand(seed, "c10p", c)
	ks := w.ks
	type mk struct {
		name string
		role spectypes.BeaconRole
		f    func(id spectypes.OperatorID) *spectypes.SignedPartialSignatureMessage
	}
	mks := []mk{
		{"post-att", spectypes.BNRoleAttester, func(id spectypes.OperatorID) *spectypes.SignedPartialSignatureMessage {
			return testingutils.PostConsensusAttestationMsg(ks.Shares[id], id, specqbft.Height(testingutils.TestingDutySlot))
		}},
		{"pre-randao", spectypes.BNRoleProposer, func(id spectypes.OperatorID) *spectypes.SignedPartialSignatureMessage {
			return testingutils.PreConsensusRandaoMsg(ks.Shares[id], id)
		}},
		{"pre-selection", spectypes.BNRoleAggregator, func(id spectypes.OperatorID) *spectypes.SignedPartialSignatureMessage {
			return testingutils.PreConsensusSelectionProofMsg(ks.Shares[id], ks.Shares[id], id, id)
		}},
		{"post-agg", spectypes.BNRoleAggregator, func(id spectypes.OperatorID) *spectypes.SignedPartialSignatureMessage {
			return testingutils.PostConsensusAggregatorMsg(ks.Shares[id], id)
		}},
		{"post-sc", spectypes.BNRoleSyncCommittee, func(id spectypes.OperatorID) *spectypes.SignedPartialSignatureMessage {
			return testingutils.PostConsensusSyncCommitteeMsg(ks.Shares[id], id)
		}},
		{"pre-contrib", spectypes.BNRoleSyncCommitteeContribution, func(id spectypes.OperatorID) *spectypes.SignedPartialSignatureMessage {
			return testingutils.PreConsensusContributionProofMsg(ks.Shares[id], ks.Shares[id], id, id)
		}},
		{"post-contrib", spectypes.BNRoleSyncCommitteeContribution, func(id spectypes.OperatorID) *spectypes.SignedPartialSignatureMessage {
			return testingutils.PostConsensusSyncCommitteeContributionMsg(ks.Shares[id], id, ks)
		}},
		{"pre-registration", spectypes.BNRoleValidatorRegistration, func(id spectypes.OperatorID) *spectypes.SignedPartialSignatureMessage {
			return testingutils.PreConsensusValidatorRegistrationMsg(ks.Shares[id], id)
		}},
		{"pre-exit", spectypes.BNRoleVoluntaryExit, func(id spectypes.OperatorID) *spectypes.SignedPartialSignatureMessage {
			return testingutils.PreConsensusVoluntaryExitMsg(ks.Shares[id], id)
		}},
	}
	m := mks[int(c)%len(mks)]
	out.Case("partial seed=%d case=%d size=%d kind=%s", seed, c, w.size, m.name)
	val := w.validator()
	msgID := spectypes.NewMsgID(w.netCfg.Domain, w.share.ValidatorPubKey, m.role)
	// all operators send, in a random order; the peer validates them one after the other
	order := r.Intn(w.size)
	recv := w.netCfg.Beacon.GetSlotStartTime(phase0.Slot(testingutils.TestingDutySlot)).Add(5 * time.Second)
	for k := 0; k < w.size; k++ {
		id := spectypes.OperatorID((order+k)%w.size + 1)
		pm := m.f(id)
		data, err := pm.Encode()
		must(err)
		sm := &spectypes.SSVMessage{MsgType: spectypes.SSVPartialSignatureMsgType, MsgID: msgID, Data: data}
		out.Op("VALIDATE", "partial %s", describe(sm))
		_, _, err = validation.VerifValidateSSVMessage(val, sm, recv)
		class, text := classify(err)
		out.Obs("peer=0 %s %s", class, text)
		out.Count("partial-class-" + class)
		if class == "reject" {
			out.ViolF("c10 honest %s message of operator %d rejected: %s", m.name, id, text)
		}
		if class != "accept" {
			out.ViolF("c10 honest %s message of operator %d not accepted in a fault-free in-order run: %s %s", m.name, id, class, text)
		}
	}
	out.End()
}

func b2i(b bool) int {
	if b {
		return 1
	}
	return 0
}

func replay(out *hx.Out, path string) {
	fh, err := os.Open(path)
	if err != nil {
		fmt.Fprintln(os.Stderr, err)
		os.Exit(2)
	}
	defer fh.Close()
	sc := bufio.NewScanner(fh)
	sc.Buffer(make([]byte, 1<<20), 1<<26)
	worlds := map[int]*world{}
	for sc.Scan() {
		l := sc.Text()
		if !strings.HasPrefix(l, "CASE ") {
			continue
		}
		var seed, c uint64
		size := 4
		partial := strings.Contains(l, " partial ")
		for _, f := range strings.Fields(l) {
			kv := strings.SplitN(f, "=", 2)
			if len(kv) != 2 {
				continue
			}
			switch kv[0] {
			case "seed":
				seed, _ = strconv.ParseUint(kv[1], 10, 64)
			case "case":
				c, _ = strconv.ParseUint(kv[1], 10, 64)
			case "size":
				size, _ = strconv.Atoi(kv[1])
			}
		}
		if worlds[size] == nil {
			worlds[size] = newWorld(size)
		}
		if partial {
			partialCase(out, worlds[size], seed, c)
		} else {
			oneRun(out, worlds[size], seed, c)
		}
	}
}

func main() {
	_ = instance.CutoffRound
	if len(os.Args) < 2 {
		fmt.Fprintln(os.Stderr, "usage: hx-c10 run|partial|replay ...")
		os.Exit(2)
	}
	mode := os.Args[1]
	fs := flag.NewFlagSet(mode, flag.ExitOnError)
	seed := fs.Uint64("seed", 1, "seed")
	n := fs.Int("n", 20, "cases")
	size := fs.Int("size", 4, "committee size")
	_ = fs.Parse(os.Args[2:])
	out := hx.NewOut()
	defer out.Close()
	switch mode {
	case "run":
		w := newWorld(*size)
		for c := 0; c < *n; c++ {
			oneRun(out, w, *seed, uint64(c))
		}
	case "partial":
		w := newWorld(*size)
		for c := 0; c < *n; c++ {
			partialCase(out, w, *seed, uint64(c))
		}
	case "replay":
		replay(out, fs.Arg(0))
	default:
		os.Exit(2)
	}
}
