// Package goconst reads constant declarations out of Go source files with go/parser and
// evaluates them with go/constant, without type-checking the package (the packages in question
// import libp2p, which a source importer would have to load).  It understands literals, references
// to constants of the same package, parentheses, unary/binary operators, conversions T(x) and the
// time.Nanosecond ... time.Hour units.  Anything else is refused with an error, so a constant that
// stops being a plain constant expression makes the generator (and with it the check) fail loudly.
package goconst

import (
	"fmt"
	"go/ast"
	"go/constant"
	"go/parser"
	"go/token"
	"os"
	"sort"
	"strings"
)

type Env struct {
	vals  map[string]constant.Value
	exprs map[string]ast.Expr
	busy  map[string]bool
}

var timeUnits = map[string]int64{
	"Nanosecond": 1, "Microsecond": 1e3, "Millisecond": 1e6, "Second": 1e9, "Minute": 60e9, "Hour": 3600e9,
}

// Load parses the given files (all of one package) and indexes their package-level constants.
func Load(files ...string) (*Env, error) {
	e := &Env{vals: map[string]constant.Value{}, exprs: map[string]ast.Expr{}, busy: map[string]bool{}}
	fset := token.NewFileSet()
	for _, f := range files {
		af, err := parser.ParseFile(fset, f, nil, 0)
		if err != nil {
			return nil, err
		}
		for _, d := range af.Decls {
			gd, ok := d.(*ast.GenDecl)
			// package-level variables initialised by a constant expression (e.g. instance.CutoffRound)
			// are indexed too; evaluation refuses anything that is not a constant expression
			if !ok || (gd.Tok != token.CONST && gd.Tok != token.VAR) {
				continue
			}
			for _, s := range gd.Specs {
				vs := s.(*ast.ValueSpec)
				if len(vs.Values) != len(vs.Names) {
					continue
				}
				for i, n := range vs.Names {
					e.exprs[n.Name] = vs.Values[i]
				}
			}
		}
	}
	return e, nil
}

// Get evaluates the named constant.
func (e *Env) Get(name string) (constant.Value, error) {
	if v, ok := e.vals[name]; ok {
		return v, nil
	}
	x, ok := e.exprs[name]
	if !ok {
		return nil, fmt.Errorf("constant %s not found (or declared without a value)", name)
	}
	if e.busy[name] {
		return nil, fmt.Errorf("constant %s: cyclic", name)
	}
	e.busy[name] = true
	v, err := e.eval(x)
	e.busy[name] = false
	if err != nil {
		return nil, fmt.Errorf("constant %s: %w", name, err)
	}
	e.vals[name] = v
	return v, nil
}

func (e *Env) eval(x ast.Expr) (constant.Value, error) {
	switch x := x.(type) {
	case *ast.BasicLit:
		v := constant.MakeFromLiteral(x.Value, x.Kind, 0)
		if v.Kind() == constant.Unknown {
			return nil, fmt.Errorf("bad literal %s", x.Value)
		}
		return v, nil
	case *ast.ParenExpr:
		return e.eval(x.X)
	case *ast.Ident:
		return e.Get(x.Name)
	case *ast.SelectorExpr:
		if p, ok := x.X.(*ast.Ident); ok && p.Name == "time" {
			if u, ok := timeUnits[x.Sel.Name]; ok {
				return constant.MakeInt64(u), nil
			}
		}
		return nil, fmt.Errorf("unsupported selector %v.%s", x.X, x.Sel.Name)
	case *ast.UnaryExpr:
		v, err := e.eval(x.X)
		if err != nil {
			return nil, err
		}
		return constant.UnaryOp(x.Op, v, 0), nil
	case *ast.BinaryExpr:
		a, err := e.eval(x.X)
		if err != nil {
			return nil, err
		}
		b, err := e.eval(x.Y)
		if err != nil {
			return nil, err
		}
		switch x.Op {
		case token.SHL, token.SHR:
			s, ok := constant.Uint64Val(b)
			if !ok {
				return nil, fmt.Errorf("bad shift count")
			}
			return constant.Shift(a, x.Op, uint(s)), nil
		case token.QUO:
			if a.Kind() == constant.Int && b.Kind() == constant.Int {
				return constant.BinaryOp(a, token.QUO_ASSIGN, b), nil // integer division
			}
		}
		return constant.BinaryOp(a, x.Op, b), nil
	case *ast.CallExpr:
		// a conversion T(x) or pkg.T(x): exactly one argument, the callee is a (qualified) identifier
		if len(x.Args) == 1 {
			switch x.Fun.(type) {
			case *ast.Ident, *ast.SelectorExpr:
				return e.eval(x.Args[0])
			}
		}
		return nil, fmt.Errorf("unsupported call expression")
	}
	return nil, fmt.Errorf("unsupported expression %T", x)
}

// Uint returns the named constant as a decimal string; it must be a non-negative integer.
func (e *Env) Uint(name string) (string, error) {
	v, err := e.Get(name)
	if err != nil {
		return "", err
	}
	v = constant.ToInt(v)
	if v.Kind() != constant.Int || constant.Sign(v) < 0 {
		return "", fmt.Errorf("constant %s is not a non-negative integer: %s", name, v)
	}
	return v.ExactString(), nil
}

// Str returns the named string constant.
func (e *Env) Str(name string) (string, error) {
	v, err := e.Get(name)
	if err != nil {
		return "", err
	}
	if v.Kind() != constant.String {
		return "", fmt.Errorf("constant %s is not a string: %s", name, v)
	}
	return constant.StringVal(v), nil
}

// CoqBytes renders a Go string as a Coq list of byte codes.
func CoqBytes(s string) string {
	parts := make([]string, len(s))
	for i := 0; i < len(s); i++ {
		parts[i] = fmt.Sprintf("%d", s[i])
	}
	return "[" + strings.Join(parts, "; ") + "]"
}

// WriteIfChanged writes the file only when its content differs (keeps make incremental).
func WriteIfChanged(path, content string) error {
	if old, err := os.ReadFile(path); err == nil && string(old) == content {
		return nil
	}
	return os.WriteFile(path, []byte(content), 0o644)
}

// Names lists the indexed constants (for error messages).
func (e *Env) Names() []string {
	var ns []string
	for n := range e.exprs {
		ns = append(ns, n)
	}
	sort.Strings(ns)
	return ns
}
