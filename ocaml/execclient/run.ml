(* Driver: replays the operation lines written by harness/cmd/hx-stream on the extracted model
   (coq/ExecClient/Model.v) and prints the model's observations in the same format as the
   implementation's.  Parsing and printing only. *)
open Model
open Conv

let chain_tbl : (string, clog list) Hashtbl.t = Hashtbl.create 16
let chain : n -> clog list = fun b ->
  match Hashtbl.find_opt chain_tbl (string_of_n b) with Some l -> l | None -> []

let cfg = ref { follow = N0; batch = n_of_int 1 }
let state : st option ref = ref None          (* the running stream, if any *)
let resume_from : n option ref = ref None     (* node.go's fromBlock after the last HIST *)

let rec triples = function
  | tx :: idx :: rm :: rest ->
      { c_tx = n_of_string tx; c_idx = n_of_string idx; c_removed = (rm = "1") } :: triples rest
  | _ -> []

let rec plogs = function
  | b :: tx :: idx :: rest ->
      { l_block = n_of_string b; l_tx = n_of_string tx; l_idx = n_of_string idx; l_removed = false }
      :: plogs rest
  | _ -> []

let failspec = function
  | k :: kind :: _ ->
      let kd = match kind with "err" -> FErr | "drop" -> FDrop | "cancel" -> FCancel
                             | _ -> failwith "fkind" in
      Some (nat_of_string k, kd)
  | _ -> None

let mode_s = function MSub -> "sub" | MIdle -> "idle" | MDone -> "done" | MFatal -> "fatal"

let print_entry e =
  Printf.printf "OBS e %s %d%s\n" (string_of_n e.e_block) (List.length e.e_logs)
    (String.concat "" (List.map (fun l -> " " ^ string_of_n l.l_tx ^ ":" ^ string_of_n l.l_idx) e.e_logs))

let print_obs = function
  | OQuery (a, b) -> Printf.printf "OBS q %s %s\n" (string_of_n a) (string_of_n b)
  | OEntry e -> print_entry e
  | OMetric v -> Printf.printf "OBS m %s\n" (string_of_n v)
  | OStatus m -> Printf.printf "OBS st %s\n" (mode_s m)
  | OIgnored -> print_endline "OBS ign"

let do_event e =
  match !state with
  | None -> print_endline "OBS ign"
  | Some s -> let (s', os) = step !cfg chain s e in state := Some s'; List.iter print_obs os

let start from =
  state := Some (init from);
  print_endline "OBS st sub"

let () =
  iter_lines (function
    | "CASE" :: _ as w ->
        Hashtbl.reset chain_tbl; state := None; resume_from := None;
        print_endline (String.concat " " w)
    | [ "END" ] -> print_endline "END"
    (* every operation that is not a stream event ends the running stream (the driver cancels it) *)
    | [ "CFG"; f; b ] -> state := None;
        cfg := { follow = n_of_string f; batch = (if b = "0" then n_of_int 1 else n_of_string b) }
    | "BLK" :: b :: _ :: rest -> state := None; Hashtbl.replace chain_tbl b (triples rest)
    | [ "STREAM"; "*" ] -> state := None;
        (match !resume_from with Some f -> resume_from := None; start f
                               | None -> print_endline "OBS ign")
    | [ "STREAM"; from ] -> resume_from := None; start (n_of_string from)
    | [ "SUBOK" ] -> do_event ESubOk
    | [ "SUBFAIL" ] -> do_event ESubFail
    | "HEAD" :: h :: rest -> do_event (EHead (n_of_string h, failspec rest))
    | [ "SUBERR" ] -> do_event ESubErr
    | [ "DROP" ] -> do_event EDrop
    | [ "CANCEL" ] -> do_event ECancel
    | "HIST" :: from :: bn :: rest ->
        state := None;
        let from = n_of_string from in
        let bn = if bn = "-" then None else Some (n_of_string bn) in
        let (os, r) = history !cfg chain from bn (failspec rest) in
        List.iter print_obs os;
        resume_from := resume from r;
        (match r with
         | HNothing -> print_endline "OBS h nothing"
         | HOk last -> Printf.printf "OBS h ok %s\n" (string_of_n last)
         | HErr -> print_endline "OBS h err")
    | "PACK" :: _ :: rest -> state := None; List.iter print_entry (pack_logs (plogs rest))
    | _ -> ())
