(* Runner for the registry model (properties C11 and C12): replays the operation lines written by
   harness/cmd/hx-events on the extracted model and prints the model's observations in the same
   format as the implementation's.  Parsing and printing only. *)
open Model
open Conv

let rec take k l = if k = 0 then ([], l) else match l with
  | x :: tl -> let (a, b) = take (k - 1) tl in (x :: a, b) | [] -> failwith "take"

let nlist = function
  | k :: rest -> let (ids, rest') = take (int_of_string k) rest in (List.map n_of_string ids, rest')
  | _ -> failwith "nlist"

let parse_event = function
  | "OA" :: id :: owner :: pk :: _ -> EOperatorAdded (n_of_string id, n_of_string owner, n_of_string pk)
  | "OR" :: id :: _ -> EOperatorRemoved (n_of_string id)
  | "VA" :: owner :: v :: len :: rest ->
      let (sg, rest) = match rest with
        | "-" :: r -> (None, r)
        | a :: b :: c :: r -> (Some ((n_of_string a, n_of_string b), n_of_string c), r)
        | _ -> failwith "sig" in
      let (ops, rest) = nlist rest in
      let (shs, _) = match rest with
        | k :: r ->
            let rec go i r = if i = 0 then ([], r) else match r with
              | spk :: ok :: r' -> let (l, r'') = go (i - 1) r' in ((n_of_string spk, bool_of_string ok) :: l, r'')
              | _ -> failwith "shares" in
            go (int_of_string k) r
        | _ -> failwith "nshares" in
      EValidatorAdded { va_owner = n_of_string owner; va_ops = ops; va_v = n_of_string v;
                        va_len = n_of_string len; va_sig = sg; va_shares = shs }
  | "VR" :: owner :: v :: rest -> let (ops, _) = nlist rest in
      EValidatorRemoved (n_of_string owner, ops, n_of_string v)
  | "VX" :: owner :: v :: blk :: rest -> let (ops, _) = nlist rest in
      EValidatorExited (n_of_string owner, ops, n_of_string v, n_of_string blk)
  | "CL" :: owner :: rest -> let (ops, _) = nlist rest in EClusterLiquidated (n_of_string owner, ops)
  | "CR" :: owner :: rest -> let (ops, _) = nlist rest in EClusterReactivated (n_of_string owner, ops)
  | "FR" :: owner :: fee :: _ -> EFeeRecipientUpdated (n_of_string owner, n_of_string fee)
  | "XX" :: _ -> EIgnored
  | _ -> failwith "event"

let cmpn a b = ZA.compare (zt_of_n a) (zt_of_n b)
let sorted_keys l = List.sort (fun (a, _) (b, _) -> cmpn a b) l
let sn = string_of_n
let join sep f l = String.concat sep (List.map f l)
let nl l = join "," sn l
let opt = function Some x -> sn x | None -> "-"

let print_task = function
  | TStart v -> Printf.printf "OBS task start %s\n" (sn v)
  | TStop v -> Printf.printf "OBS task stop %s\n" (sn v)
  | TLiquidate (o, ops, vs) -> Printf.printf "OBS task liq %s ops=%s vs=%s\n" (sn o) (nl ops) (nl vs)
  | TReactivate (o, ops, vs) -> Printf.printf "OBS task react %s ops=%s vs=%s\n" (sn o) (nl ops) (nl vs)
  | TFee (o, f) -> Printf.printf "OBS task fee %s %s\n" (sn o) (sn f)
  | TExit (v, b, i) -> Printf.printf "OBS task exit %s %s %s\n" (sn v) (sn b) (sn i)

let print_state (st : istate) =
  Printf.printf "%s\n" (String.trim ("OBS ops " ^
    join " " (fun (id, d) -> Printf.sprintf "%s:%s:%s" (sn id) (sn d.o_owner) (sn d.o_pk)) (sorted_keys st.db.x_ops)));
  Printf.printf "OBS self %s\n" (sn st.self);
  List.iter (fun (v, s) ->
      Printf.printf "OBS sh %s %s %s %s %s %s %s\n" (sn v) (sn s.s_owner) (sn s.s_opid) (sn s.s_spk)
        (string_of_bool s.s_liq) (opt s.s_meta)
        (join "," (fun (id, k) -> sn id ^ ":" ^ sn k) s.s_comm))
    (sorted_keys st.mem);
  Printf.printf "%s\n" (String.trim ("OBS rcp " ^
    join " " (fun (o, r) -> Printf.sprintf "%s:%s:%s" (sn o) (sn r.r_fee) (opt r.r_nonce)) (sorted_keys st.db.x_rcp)));
  Printf.printf "OBS last %s\n" (sn st.db.x_last);
  let ss l = nl (List.sort cmpn l) in
  Printf.printf "OBS km use=%s att=%s prop=%s\n" (ss st.km.km_use) (ss st.km.km_att) (ss st.km.km_prop);
  Printf.printf "OBS dec hist=%s hi=%s\n" (ss st.km.km_dhist) (ss st.km.km_dhi);
  Printf.printf "OBS memdb %s\n" (string_of_bool (mem_eq_db st))

let () =
  let st = ref istate_init in
  let bnum = ref N0 in
  let evs = ref [] in
  let block () = { bnum = !bnum; bevents = List.rev !evs } in
  iter_lines (function
    | "CASE" :: _ as w -> print_endline (String.concat " " w); st := istate_init
    | [ "END" ] -> print_endline "END"
    | [ "NEW" ] -> st := istate_init
    | [ "B"; n ] -> bnum := n_of_string n; evs := []
    | "E" :: rest -> evs := parse_event rest :: !evs
    | [ "P" ] ->
        let b = block () in
        let ntr = List.length (trace !st b) in
        let (st', r) = process_block !st b in
        (match r with
         | BRefused -> print_endline "OBS res inferior"
         | BDone (tasks, _) ->
             Printf.printf "OBS res ok %d\n" ntr;
             List.iter print_task tasks);
        st := st'; print_state !st
    | "K" :: k :: _ ->
        let b = block () in
        let ntr = List.length (trace !st b) in
        let k = int_of_string k in
        Printf.printf "OBS crash %s\n" (string_of_bool (ntr <= k));
        st := crash_at !st b (nat_of_int k); print_state !st
    | [ "M"; v; idx ] -> st := update_metadata !st (n_of_string v) (n_of_string idx); print_state !st
    | [ "R" ] -> st := restart !st; print_state !st
    | [ "D"; v ] -> st := save_decided !st (n_of_string v)
    | [ "S"; owner; n ] -> st := seed_nonce !st (n_of_string owner) (n_of_string n)
    | _ -> ())
