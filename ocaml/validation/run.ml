(* Driver: replays the operation lines written by harness/cmd/hx-val on the extracted validation
   model and prints the model's observations in the same format as the implementation's.
   Parsing and printing only. *)
open Model
open Conv
open Convz

let string_of_coq (s : n list) : String.t =
  String.concat "" (List.map (fun c -> String.make 1 (Char.chr (int_of_n c))) s)

(* error texts are compared after canonicalisation: anything but letters and digits becomes '_' *)
let canon (s : String.t) : String.t =
  String.map (fun c -> match c with 'a' .. 'z' | 'A' .. 'Z' | '0' .. '9' -> c | _ -> '_') s

let b = bool_of_string

(* token stream *)
let toks : String.t list ref = ref []
let next () = match !toks with x :: tl -> toks := tl; x | [] -> failwith "short line"
let nextn () = n_of_string (next ())
let nextb () = b (next ())
let rec times k f = if k <= 0 then [] else let x = f () in x :: times (k - 1) f

let parse_body () : body =
  match next () with
  | "U" -> BUndecodable
  | "E" -> BEvent
  | "C" ->
      let c_sig_len = nextn () in let c_sig_zero = nextb () in
      let c_type = nextn () in let c_height = nextn () in let c_round = nextn () in
      let k = int_of_string (next ()) in
      let c_signers = times k nextn in
      let c_fd_len = nextn () in let c_fd_id = nextn () in let c_root_ok = nextb () in
      let c_pj_ok = nextb () in let c_pj_len = nextn () in
      let c_rcj_ok = nextb () in let c_rcj_len = nextn () in
      let c_just_ok = nextb () in let c_duty_ok = nextb () in
      BConsensus { c_sig_len; c_sig_zero; c_type; c_height; c_round; c_signers; c_fd_len; c_fd_id;
                   c_root_ok; c_pj_ok; c_pj_len; c_rcj_ok; c_rcj_len; c_just_ok; c_duty_ok }
  | "P" ->
      let p_type = nextn () in let p_slot = nextn () in let p_signer = nextn () in
      let p_sig_len = nextn () in let p_sig_zero = nextb () in
      let k = int_of_string (next ()) in
      let p_msgs = times k (fun () ->
        let ps_signer = nextn () in let ps_root = nextn () in
        let ps_sig_len = nextn () in let ps_sig_zero = nextb () in
        { ps_signer; ps_root; ps_sig_len; ps_sig_zero }) in
      BPartial { p_type; p_slot; p_signer; p_sig_len; p_sig_zero; p_msgs }
  | _ -> failwith "body"

let print_result (r : result) =
  match r with
  | Accept -> print_endline "OBS accept -"
  | Ignore e -> Printf.printf "OBS ignore %s\n" (canon (string_of_coq (err_text e)))
  | Reject e -> Printf.printf "OBS reject %s\n" (canon (string_of_coq (err_text e)))
  | Panic _ -> print_endline "OBS panic -"

let print_state (c : cfg) (vs : vstate) (vid : n) (role : n) =
  match get_share c vid with
  | None -> ()
  | Some _ ->
      let cs = get_cs (vid, role) vs in
      let cs = List.sort (fun (a, _) (b, _) -> ZA.compare (zt_of_n a) (zt_of_n b)) cs in
      List.iter (fun (s, ss) ->
        let cn = ss.ss_counts in
        Printf.printf "OBS st %s %s %s %s %s %s %s %s %s %s %s %s\n"
          (string_of_n s) (string_of_n ss.ss_slot) (string_of_n ss.ss_round)
          (string_of_z cn.n_pre) (string_of_z cn.n_proposal) (string_of_z cn.n_prepare)
          (string_of_z cn.n_commit) (string_of_z cn.n_decided) (string_of_z cn.n_rc)
          (string_of_z cn.n_post)
          (match ss.ss_pdata with Some d -> string_of_n d | None -> "-")
          (string_of_z ss.ss_duties)) cs

let () =
  let cfg = ref { c_genesis = N0; c_slot_dur = n_of_int 12; c_spe = n_of_int 32; c_perm_epoch = N0;
                  c_domain = N0; c_shares = [] } in
  let vs : vstate ref = ref [] in
  iter_lines (fun w ->
    match w with
    | "CASE" :: _ -> print_endline (String.concat " " w)
    | [ "END" ] -> print_endline "END"
    | [ "CFG"; g; d; spe; pe; dom ] ->
        cfg := { c_genesis = n_of_string g; c_slot_dur = n_of_string d; c_spe = n_of_string spe;
                 c_perm_epoch = n_of_string pe; c_domain = n_of_string dom; c_shares = [] };
        vs := []
    | "SHARE" :: liq :: meta :: att :: q :: _ :: ops ->
        let sh = { s_liquidated = b liq; s_has_meta = b meta; s_attesting = b att;
                   s_quorum = n_of_string q; s_committee = List.map n_of_string ops } in
        cfg := { !cfg with c_shares = !cfg.c_shares @ [ sh ] }
    | [ "NEW" ] -> vs := []
    | "VAL" :: rest ->
        toks := rest;
        let sec = z_of_string (next ()) in let nsec = z_of_string (next ()) in
        let e_p2p = nextb () in let e_raw_len = nextn () in
        let e_topic = (match next () with "-" -> None | k -> Some (n_of_string k)) in
        let e_op_found = nextb () in let e_op_key_ok = nextb () in let e_rsa_ok = nextb () in
        let e_ssv_decode_ok = nextb () in let e_data_len = nextn () in let e_domain = nextn () in
        let e_pk_prefix = nextn () in let e_role = nextn () in let e_pk_deser_ok = nextb () in
        let e_vid = nextn () in let e_msg_type = nextn () in
        let e_body = parse_body () in
        let env = { e_p2p; e_raw_len; e_topic; e_op_found; e_op_key_ok; e_rsa_ok; e_ssv_decode_ok;
                    e_data_len; e_domain; e_pk_prefix; e_role; e_pk_deser_ok; e_vid; e_msg_type;
                    e_body } in
        let (r, vs') = validate !cfg !vs (sec, nsec) env in
        vs := vs';
        print_result r;
        if e_ssv_decode_ok || not e_p2p then print_state !cfg !vs e_vid e_role
    | "DSSV" :: len :: _ ->
        (* commons.DecodeSignedSSVMessage on a buffer of the given length: only lengths matter *)
        let k = int_of_string len in
        let buf = List.init k (fun i -> n_of_int (i land 255)) in
        (match decode_signed_ssv buf with
         | None -> print_endline "OBS dssv err"
         | Some ((m, o), s) ->
             Printf.printf "OBS dssv ok %d %d %d\n" (List.length m) (List.length o) (List.length s))
    | "SUBNETS" :: chars ->
        (match subnets_from_chars (List.map n_of_string chars) with
         | None -> print_endline "OBS subnets err"
         | Some bits -> Printf.printf "OBS subnets ok %s\n"
                          (String.concat "" (List.map string_of_n bits)))
    | "SHARED" :: ml :: rest ->
        toks := rest;
        let ka = int_of_string (next ()) in let a = times ka nextn in
        let kb = int_of_string (next ()) in let bb = times kb nextn in
        (match shared_subnets true a bb (nat_of_string ml) with
         | None -> print_endline "OBS shared panic"
         | Some l -> Printf.printf "OBS shared ok %s\n"
                       (String.concat "," (List.map string_of_nat l)))
    | "DOMAINTYPE" :: k :: rest ->
        toks := rest;
        let bs = times (int_of_string k) nextn in
        (match decode_domain_type true bs with
         | None -> print_endline "OBS domaintype panic"
         | Some None -> print_endline "OBS domaintype err"
         | Some (Some l) -> Printf.printf "OBS domaintype ok %s\n"
                              (String.concat "," (List.map string_of_n l)))
    | [ "SNI"; k; b0; b1; i2; b4; ni ] ->
        (match signed_node_info_post_json (nat_of_string k) (b b0) (b b1) (b i2) (b b4) (b ni) with
         | None -> print_endline "OBS sni panic"
         | Some true -> print_endline "OBS sni ok"
         | Some false -> print_endline "OBS sni err")
    | _ -> ())
