(* Shared glue between decimal text and the extracted binary numbers (positive / N / Z / nat).
   Copied into every area directory by dune (copy_files); [Model] is that area's extracted code.
   Conversion only - no arithmetic of the model is done here. *)
module ZA = Z
open Model

let rec pos_of_z (z : ZA.t) : positive =
  if ZA.equal z ZA.one then XH
  else if ZA.testbit z 0 then XI (pos_of_z (ZA.shift_right z 1))
  else XO (pos_of_z (ZA.shift_right z 1))

let rec z_of_pos (p : positive) : ZA.t =
  match p with
  | XH -> ZA.one
  | XO q -> ZA.shift_left (z_of_pos q) 1
  | XI q -> ZA.succ (ZA.shift_left (z_of_pos q) 1)

let n_of_zt (z : ZA.t) : n = if ZA.sign z <= 0 then N0 else Npos (pos_of_z z)
let zt_of_n (x : n) : ZA.t = match x with N0 -> ZA.zero | Npos p -> z_of_pos p
let n_of_string (s : string) : n = n_of_zt (ZA.of_string s)
let string_of_n (x : n) : string = ZA.to_string (zt_of_n x)
let n_of_int (i : int) : n = n_of_zt (ZA.of_int i)
let int_of_n (x : n) : int = ZA.to_int (zt_of_n x)

let rec nat_of_int (i : int) : nat = if i <= 0 then O else S (nat_of_int (i - 1))
let rec int_of_nat (x : nat) : int = match x with O -> 0 | S y -> 1 + int_of_nat y
let nat_of_string s = nat_of_int (int_of_string s)
let string_of_nat x = string_of_int (int_of_nat x)

let bool_of_string s = (s = "1" || s = "true")
let string_of_bool b = if b then "1" else "0"

let words (line : string) : string list =
  List.filter (fun w -> w <> "") (String.split_on_char ' ' (String.trim line))

(* Reads stdin line by line; [f] gets the words of each line. *)
let iter_lines (f : string list -> unit) : unit =
  try
    while true do
      f (words (input_line stdin))
    done
  with End_of_file -> ()
