(* Extra glue for areas whose model uses Z (signed). *)
open Model
open Conv
module ZA = Conv.ZA

let z_of_zt (z : ZA.t) : z =
  if ZA.sign z = 0 then Z0 else if ZA.sign z > 0 then Zpos (pos_of_z z) else Zneg (pos_of_z (ZA.neg z))
let zt_of_z (x : z) : ZA.t =
  match x with Z0 -> ZA.zero | Zpos p -> z_of_pos p | Zneg p -> ZA.neg (z_of_pos p)
let z_of_string s = z_of_zt (ZA.of_string s)
let string_of_z x = ZA.to_string (zt_of_z x)
