(* Driver: replays the operation lines written by harness/cmd/hx-duties on the extracted model of the
   three duty handlers and prints the model's observations in the implementation's format. *)
open Model
open Conv

let parse_answer = function
  | "none" :: rest -> (ANone, rest)
  | "fail" :: rest -> (AFail, rest)
  | "ok" :: k :: rest ->
      let rec go k rest acc =
        if k = 0 then (List.rev acc, rest)
        else match rest with
          | s :: v :: t :: i :: rest' ->
              go (k - 1) rest'
                ({ d_slot = n_of_string s; d_vidx = n_of_string v; d_tag = n_of_string t;
                   d_inc = (i = "1") } :: acc)
          | _ -> (List.rev acc, [])
      in
      let (l, rest') = go (int_of_string k) rest [] in
      (AOk l, rest')
  | _ :: rest -> (AFail, rest)
  | [] -> (AFail, [])

let role_char = function
  | RAttester -> 'A' | RAggregator -> 'G' | RProposer -> 'P'
  | RSyncCommittee -> 'S' | RContribution -> 'C'

let print_fetch ep a =
  Printf.printf "OBS fetch %s %s\n" (string_of_n ep)
    (match a with ANone -> "none" | AFail -> "fail" | AOk _ -> "ok")

let print_obs_list l =
  List.iter (function OFetch (_, ep, a) -> print_fetch ep a | ODispatch _ -> ()) l

(* dispatched duties of one execution: sorted by (slot, validator, role, tag), as the Go driver does *)
let print_dispatches l =
  let t = List.filter_map (function
    | ODispatch (r, s, v, tg) -> Some (zt_of_n s, zt_of_n v, role_char r, zt_of_n tg)
    | OFetch _ -> None) l in
  let cmp (s1, v1, r1, t1) (s2, v2, r2, t2) =
    let c = ZA.compare s1 s2 in if c <> 0 then c else
    let c = ZA.compare v1 v2 in if c <> 0 then c else
    let c = compare r1 r2 in if c <> 0 then c else ZA.compare t1 t2 in
  List.iter (fun (s, v, r, tg) ->
    Printf.printf "OBS exec %c %s %s %s\n" r (ZA.to_string s) (ZA.to_string v) (ZA.to_string tg))
    (List.stable_sort cmp t)

let print_out ((pre, disp), post) =
  print_obs_list pre; print_dispatches disp; print_obs_list post

type machine =
  | MNone
  | MA of att_state
  | MP of prop_state
  | MS of sync_state

let () =
  let cfg = ref { spe = n_of_int 32; epp = n_of_int 256; boundary_fix = true } in
  let kind = ref "A" in
  let m = ref MNone in
  let step ev =
    match !m with
    | MNone -> ()
    | MA st -> let (st', o) = att_step !cfg st ev in m := MA st'; print_out o
    | MP st -> let (st', o) = prop_step !cfg st ev in m := MP st'; print_out o
    | MS st -> let (st', o) = sync_step !cfg st ev in m := MS st'; print_out o in
  iter_lines (function
    | "CASE" :: _ as w -> m := MNone; print_endline (String.concat " " w)
    | [ "END" ] -> print_endline "END"
    | "CFG" :: k :: spe :: epp :: rest ->
        kind := k;
        let fix = (match rest with "0" :: _ -> false | _ -> true) in
        cfg := { spe = n_of_string spe; epp = n_of_string epp; boundary_fix = fix }
    | "INIT" :: now :: rest ->
        (match !m with
         | MNone ->
           let (a, _) = parse_answer rest in
           (match !kind with
            | "A" -> m := MA att_init
            | "P" -> let (st, o) = prop_init !cfg (n_of_string now) a in m := MP st; print_obs_list o
            | _ -> let (st, o) = sync_init !cfg (n_of_string now) a in m := MS st; print_obs_list o)
         | _ -> ())
    | "TICK" :: s :: now :: rest ->
        let (a1, rest) = parse_answer rest in
        let (a2, _) = parse_answer rest in
        step (Tick (n_of_string s, n_of_string now, a1, a2))
    | [ "REORG"; s; p; c ] -> step (Reorg (n_of_string s, p = "1", c = "1"))
    | [ "IDX"; now ] -> step (Indices (n_of_string now))
    | _ -> ())
