(* Driver: replays the operation lines written by harness/cmd/hx-queue on the extracted model
   and prints the model's observations in the same format as the implementation's. *)
open Model
open Conv

let parse_body = function
  | "E" :: ty :: rest -> (BEvent (n_of_string ty), rest)
  | "C" :: h :: r :: ty :: ns :: rest ->
      (BCons (n_of_string h, n_of_string r, n_of_string ty, n_of_string ns), rest)
  | "P" :: s :: ty :: rest -> (BPartial (n_of_string s, n_of_string ty), rest)
  | "O" :: rest -> (BOther, rest)
  | _ -> failwith "body"

let parse_pstate = function
  | run :: h :: r :: s :: q :: rest ->
      ({ has_running = bool_of_string run; p_height = n_of_string h; p_round = n_of_string r;
         p_slot = n_of_string s; p_quorum = n_of_string q }, rest)
  | _ -> failwith "pstate"

let rec take k l = if k = 0 then ([], l) else match l with
  | x :: tl -> let (a, b) = take (k - 1) tl in (x :: a, b) | [] -> failwith "take"

let parse_filter = function
  | "any" :: rest -> (FAny, rest)
  | "none" :: rest -> (FNone, rest)
  | "ids" :: k :: rest -> let (ids, rest') = take (int_of_string k) rest in
      (FIds (List.map n_of_string ids), rest')
  | "exec" :: rest -> (FExecuteDutyOnly, rest)
  | "hold" :: h :: r :: rest -> (FHoldPrepareCommit (n_of_string h, n_of_string r), rest)
  | _ -> failwith "filter"

let print_obs = function
  | RPush (ok, len) -> Printf.printf "OBS push %s %s\n" (string_of_bool ok) (string_of_nat len)
  | RPop (r, len) ->
      Printf.printf "OBS pop %s %s\n"
        (match r with Some m -> string_of_n m.mid | None -> "-") (string_of_nat len)

let () =
  let q = ref (new_queue O) in
  let do_op o = let (q', r) = step !q o in q := q'; print_obs r in
  iter_lines (function
    | "CASE" :: _ as w -> print_endline (String.concat " " w)
    | [ "END" ] -> print_endline "END"
    | [ "NEW"; c ] -> q := new_queue (nat_of_string c)
    | "PUSH" :: id :: rest -> let (b, _) = parse_body rest in
        do_op (OPush { mid = n_of_string id; mbody = b })
    | "TRYPOP" :: rest -> let (p, rest) = parse_pstate rest in let (f, _) = parse_filter rest in
        do_op (OTryPop (p, f))
    | "POPDONE" :: rd :: rest -> let (p, rest) = parse_pstate rest in
        let (f, _) = parse_filter rest in do_op (OPopDone (bool_of_string rd, p, f))
    | "PRIOR" :: rest ->
        let (p, rest) = parse_pstate rest in
        let (a, rest) = parse_body rest in let (b, _) = parse_body rest in
        Printf.printf "OBS prior %s\n"
          (string_of_bool (prior p { mid = N0; mbody = a } { mid = N0; mbody = b }))
    | _ -> ())
