(* Driver: replays the operation lines written by harness/cmd/hx-qbft on the extracted QBFT model. *)
open Model
open Conv

let opt_of_string s = if s = "-" then None else Some (n_of_string s)
let string_of_opt = function None -> "-" | Some v -> string_of_n v

(* tree := M ty h r root dr full sig fmt ident k s1..sk a <a trees> b <b trees> *)
let rec parse_tree (w : string list) : smsg * string list =
  match w with
  | "M" :: ty :: h :: r :: root :: dr :: full :: sg :: fmt :: ident :: k :: rest ->
      let k = int_of_string k in
      let rec take i l acc = if i = 0 then (List.rev acc, l) else
        match l with x :: tl -> take (i - 1) tl (n_of_string x :: acc) | [] -> failwith "signers" in
      let (signers, rest) = take k rest [] in
      let (rcj, rest) = parse_list rest in
      let (pj, rest) = parse_list rest in
      (SM ({ c_type = n_of_string ty; c_height = n_of_string h; c_round = n_of_string r;
             c_root = n_of_string root; c_data_round = n_of_string dr; c_signers = signers;
             c_full = opt_of_string full; c_sig_ok = bool_of_string sg; c_fmt_ok = bool_of_string fmt;
             c_ident = n_of_string ident }, rcj, pj), rest)
  | _ -> failwith ("tree: " ^ String.concat " " w)
and parse_list (w : string list) : smsg list * string list =
  match w with
  | k :: rest ->
      let rec go i l acc = if i = 0 then (List.rev acc, l) else
        let (t, l') = parse_tree l in go (i - 1) l' (t :: acc) in
      go (int_of_string k) rest []
  | [] -> failwith "list"

let rec string_of_tree (SM (k, a, b)) : string =
  String.concat " " ([ "M"; string_of_n k.c_type; string_of_n k.c_height; string_of_n k.c_round;
                       string_of_n k.c_root; string_of_n k.c_data_round; string_of_opt k.c_full;
                       string_of_bool k.c_sig_ok; string_of_bool k.c_fmt_ok; string_of_n k.c_ident;
                       string_of_int (List.length k.c_signers) ]
                     @ List.map string_of_n k.c_signers
                     @ [ string_of_list a; string_of_list b ])
and string_of_list l = String.concat " " (string_of_int (List.length l) :: List.map string_of_tree l)

let print_outs outs =
  List.iter (function
    | OBcast m -> Printf.printf "OBS out bcast %s\n" (string_of_tree m)
    | OTimer (h, r) -> Printf.printf "OBS out timer %s %s\n" (string_of_n h) (string_of_n r)) outs

let string_of_container (ct : container) : string =
  let ct = List.sort (fun (a, _) (b, _) -> ZA.compare (zt_of_n a) (zt_of_n b)) ct in
  let ct = List.filter (fun (_, l) -> l <> []) ct in
  String.concat ";" (List.map (fun (r, l) ->
    string_of_n r ^ ":" ^ String.concat "," (List.map (fun m ->
      let k = co m in
      string_of_n k.c_root ^ "/" ^ String.concat "+" (List.map string_of_n k.c_signers)) l)) ct)

let print_state (s : state) =
  Printf.printf "OBS st %s %s %s %s %s %s P[%s] R[%s] C[%s] X[%s]\n"
    (string_of_n s.s_round) (string_of_n s.s_lpr) (string_of_opt s.s_lpv)
    (match s.s_acc with None -> "-" | Some m -> string_of_n (co m).c_root)
    (string_of_bool s.s_decided) (string_of_opt s.s_dvalue)
    (string_of_container s.s_prop) (string_of_container s.s_prep)
    (string_of_container s.s_commit) (string_of_container s.s_rc)

let () =
  let cfg = ref { committee = []; me = N0; quorum = N0; partial_quorum = N0; bad_values = [];
                  var = node_variant } in
  let st = ref (new_instance N0) in
  let rec take i l acc = if i = 0 then (List.rev acc, l) else
    match l with x :: tl -> take (i - 1) tl (n_of_string x :: acc) | [] -> failwith "take" in
  iter_lines (function
    | "CASE" :: _ as w -> print_endline (String.concat " " w)
    | [ "END" ] -> print_endline "END"
    | "CFG" :: k :: rest ->
        let (comm, rest) = take (int_of_string k) rest [] in
        (match rest with
         | me :: q :: pq :: nb :: rest ->
             let (bad, rest) = take (int_of_string nb) rest [] in
             (match rest with
              | [ h ] ->
                  cfg := { committee = comm; me = n_of_string me; quorum = n_of_string q;
                           partial_quorum = n_of_string pq; bad_values = bad; var = node_variant };
                  st := new_instance (n_of_string h)
              | _ -> failwith "cfg height")
         | _ -> failwith "cfg")
    | [ "START"; v ] ->
        let (s', b) = step !cfg !st (OStart (opt_of_string v)) in st := s';
        (match b with BStart (p, outs) ->
           Printf.printf "OBS start %s\n" (string_of_bool p); print_outs outs | _ -> ());
        print_state !st
    | "MSG" :: rest ->
        let (m, _) = parse_tree rest in
        let (s', b) = step !cfg !st (OMsg m) in st := s';
        (match b with BMsg (r, outs) ->
           (match r with
            | PErr -> print_endline "OBS msg err"
            | PPanic -> print_endline "OBS msg panic"
            | POk (d, v, agg) ->
                Printf.printf "OBS msg ok %s %s %s\n" (string_of_bool d) (string_of_opt v)
                  (match agg with None -> "-" | Some a -> string_of_tree a));
           print_outs outs | _ -> ());
        print_state !st
    | [ "TIMEOUT" ] ->
        let (s', b) = step !cfg !st OTimeout in st := s';
        (match b with BTimeout (ok, outs) ->
           Printf.printf "OBS timeout %s\n" (string_of_bool ok); print_outs outs | _ -> ());
        print_state !st
    | [ "COMPACT" ] ->
        let (s', _) = step !cfg !st OCompact in st := s'; print_state !st
    | [ "CSTART"; v ] ->
        let (s', b) = cstep !cfg !st (CStart (opt_of_string v)) in st := s';
        (match b with DStart (p, outs) ->
           Printf.printf "OBS start %s\n" (string_of_bool p); print_outs outs | _ -> ());
        print_state !st
    | "CMSG" :: rest ->
        let (m, _) = parse_tree rest in
        let (s', b) = cstep !cfg !st (CMsg m) in st := s';
        (match b with DMsg (r, outs) ->
           (match r with
            | CRErr -> print_endline "OBS cmsg err"
            | CRPanic -> print_endline "OBS cmsg panic"
            | CRNone -> print_endline "OBS cmsg none"
            | CRDecided a -> Printf.printf "OBS cmsg decided %s\n" (string_of_tree a));
           print_outs outs | _ -> ());
        print_state !st
    | [ "CTIMEOUT"; h; r ] ->
        let (s', b) = cstep !cfg !st (CTimeout (n_of_string h, n_of_string r)) in st := s';
        (match b with DTimeout (ok, outs) ->
           Printf.printf "OBS timeout %s\n" (string_of_bool ok); print_outs outs | _ -> ());
        print_state !st
    | _ -> ())
