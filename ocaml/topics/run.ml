(* Driver: replays the operation lines written by harness/cmd/hx-topics on the extracted model
   (coq/Topics/Model.v, function [step]) and prints the model's observations in the same format as
   the implementation's.  Parsing and printing only. *)
open Model
open Conv

(* signed numbers (the shared convz.ml is not used) *)
let string_of_z (x : z) : string =
  match x with
  | Z0 -> "0"
  | Zpos p -> ZA.to_string (z_of_pos p)
  | Zneg p -> ZA.to_string (ZA.neg (z_of_pos p))

(* byte strings travel as lower-case hex, the empty one as "-" *)
let bytes_of_hex (s : string) : n list =
  if s = "-" then []
  else begin
    let k = String.length s / 2 in
    let rec go i acc =
      if i < 0 then acc else go (i - 1) (n_of_int (int_of_string ("0x" ^ String.sub s (2 * i) 2)) :: acc)
    in
    go (k - 1) []
  end

let hex_of_bytes (l : n list) : string =
  if l = [] then "-"
  else begin
    let b = Buffer.create 64 in
    List.iter (fun x -> Buffer.add_string b (Printf.sprintf "%02x" (int_of_n x))) l;
    Buffer.contents b
  end

(* strings are printed readable: printable characters except '%' and ',' as they are, others %XX *)
let quote (l : n list) : string =
  if l = [] then "-"
  else begin
    let b = Buffer.create 32 in
    List.iter
      (fun x ->
        let c = int_of_n x in
        if c > 32 && c < 127 && c <> 37 && c <> 44 then Buffer.add_char b (Char.chr c)
        else Buffer.add_string b (Printf.sprintf "%%%02X" c))
      l;
    Buffer.contents b
  end

let quotes (ls : n list list) : string =
  if ls = [] then "-" else String.concat "," (List.map quote ls)

let bools (bs : bool list) : string =
  if bs = [] then "-" else String.concat "," (List.map string_of_bool bs)

let print_dec = function
  | DErr -> print_endline "OBS dec err"
  | DPanic -> print_endline "OBS dec panic"
  | DOk (msg, op, sg) ->
      Printf.printf "OBS dec ok %s %s %s\n" (string_of_n op) (hex_of_bytes sg) (hex_of_bytes msg)

let print_from = function
  | None -> print_endline "OBS from err"
  | Some l -> Printf.printf "OBS from ok %s\n" (hex_of_bytes l)

let print_obs = function
  | RKey (subnet, ids, full, base, pub, sub, unsub, peers, accepts, adv) ->
      Printf.printf "OBS key subnet=%s ids=%s full=%s base=%s pub=%s sub=%s unsub=%s peers=%s accepts=%s adv=%s\n"
        (string_of_z subnet) (quotes ids) (quotes full) (quotes base) (quotes pub) (quotes sub)
        (quotes unsub) (quotes peers) (bools accepts) (string_of_z adv)
  | RKeyAny (subnet, ids, full, base, sub, unsub, peers, adv) ->
      Printf.printf "OBS keyany subnet=%s ids=%s full=%s base=%s sub=%s unsub=%s peers=%s adv=%s\n"
        (string_of_z subnet) (quotes ids) (quotes full) (quotes base) (quotes sub)
        (quotes unsub) (quotes peers) (string_of_z adv)
  | RSubnet z -> Printf.printf "OBS subnet %s\n" (string_of_z z)
  | RAccept b -> Printf.printf "OBS accept %s\n" (string_of_bool b)
  | RBase b -> Printf.printf "OBS base %s\n" (quote b)
  | REncode (enc, back) -> Printf.printf "OBS enc %s\n" (hex_of_bytes enc); print_dec back
  | RDecode r -> print_dec r
  | RToString (str, back) -> Printf.printf "OBS str %s\n" (quote str); print_from back
  | RFromString r -> print_from r

let () =
  iter_lines (function
    | "CASE" :: _ as w -> print_endline (String.concat " " w)
    | [ "END" ] -> print_endline "END"
    | [ "KEY"; pk ] -> print_obs (step (OKey (bytes_of_hex pk)))
    | [ "KEYANY"; pk ] -> print_obs (step (OKeyAny (bytes_of_hex pk)))
    | [ "SUBNETHEX"; s ] -> print_obs (step (OSubnetHex (bytes_of_hex s)))
    | [ "ACCEPT"; pk; t ] -> print_obs (step (OAccept (bytes_of_hex pk, bytes_of_hex t)))
    | [ "BASE"; t ] -> print_obs (step (OBase (bytes_of_hex t)))
    | [ "ENC"; opid; sg; msg ] ->
        print_obs (step (OEncode (n_of_string opid, bytes_of_hex sg, bytes_of_hex msg)))
    | [ "DEC"; e ] -> print_obs (step (ODecode (bytes_of_hex e)))
    | [ "TOSTR"; v ] -> print_obs (step (OToString (bytes_of_hex v)))
    | [ "FROMSTR"; s ] -> print_obs (step (OFromString (bytes_of_hex s)))
    | _ -> ())
