(* Driver: replays the operation lines written by harness/cmd/hx-ctrl on the extracted model
   (Ctrl/Model.v) and prints the model's observations in the implementation's format.
   Parsing and printing only; signer sets are printed sorted, as the Go driver prints them. *)
open Model
open Conv

let rec take k l = if k = 0 then ([], l) else match l with
  | x :: tl -> let (a, b) = take (k - 1) tl in (x :: a, b) | [] -> failwith "take"

let parse_ids = function
  | k :: rest -> let (ids, rest') = take (int_of_string k) rest in (List.map n_of_string ids, rest')
  | [] -> failwith "ids"

let signers_string (l : n list) : string =
  let zs = List.sort ZA.compare (List.map zt_of_n l) in
  String.concat "." (List.map ZA.to_string zs)

let cert_string (r : stored) : string =
  Printf.sprintf "%s/%s/%s" (string_of_n r.st_inst.i_height) (string_of_n r.st_msg.c_round)
    (signers_string r.st_msg.c_signers)

let inst_string (i : inst) : string =
  let fl = (if i.i_decided then "d" else "") ^ (if i.i_started then "s" else "")
           ^ (if i.i_stopped then "x" else "") in
  Printf.sprintf "%s:%s:%s:%d" (string_of_n i.i_height) (string_of_n i.i_round)
    (if fl = "" then "-" else fl) (List.length i.i_commits)

let res_string = function
  | SOk -> "start-ok" | SPassed -> "start-passed" | SPast -> "start-past" | SExists -> "start-exists"
  | DOk -> "dec-ok" | DRejected -> "dec-rej" | DWrongInst -> "dec-wrong"
  | LSkip -> "local-skip" | LDone d -> "local-done " ^ string_of_bool d
  | RDone -> "restarted"

let () =
  let s = ref (init { full = false; fixed = false; quorum = nat_of_int 3 }) in
  let do_op ?(refused = false) ?(once = false) o hist =
    let (s', r) = if refused
      then (match o with
            | ODecided (h, m, v, l) -> xstep !s (XDecidedRefused (h, m, v, l))
            | _ -> failwith "refused")
      else if once
      then (match o with
            | ODecided (h, m, v, l) -> xstep !s (XDecidedRefusedOnce (h, m, v, l))
            | _ -> failwith "once")
      else step !s o in
    s := s';
    let c = s'.ct in
    let insts = match c.insts with [] -> "-" | l -> String.concat "," (List.map inst_string l) in
    let hi = match s'.store.highest with None -> "-" | Some r -> cert_string r in
    let hs = match hist with
      | None -> "-"
      | Some h -> (match lookup s'.store.history h with None -> "-" | Some r -> cert_string r) in
    Printf.printf "OBS %s H=%s I=%s hi=%s hs=%s\n" (res_string r) (string_of_n c.height) insts hi hs in
  iter_lines (function
    | "CASE" :: _ as w -> print_endline (String.concat " " w)
    | [ "END" ] -> print_endline "END"
    | [ "NEW"; f; x; q; _ ] ->
        s := init { full = bool_of_string f; fixed = bool_of_string x; quorum = nat_of_string q }
    | [ "START"; slot ] -> do_op (OStart (n_of_string slot)) None
    | "DECIDED" :: h :: r :: _ :: rest ->
        let (ids, rest) = parse_ids rest in
        (match rest with
         | [ v; l ] ->
             do_op (ODecided (n_of_string h, { c_round = n_of_string r; c_signers = ids },
                              bool_of_string v, bool_of_string l)) (Some (n_of_string h))
         | _ -> failwith "decided")
    | "DECIDEDW1" :: h :: r :: _ :: rest ->
        (* the same message while the database refuses only the first storage call that writes *)
        let (ids, rest) = parse_ids rest in
        (match rest with
         | [ v; l ] ->
             do_op ~once:true (ODecided (n_of_string h, { c_round = n_of_string r; c_signers = ids },
                              bool_of_string v, bool_of_string l)) (Some (n_of_string h))
         | _ -> failwith "decidedw1")
    | "DECIDEDWF" :: h :: r :: _ :: rest ->
        (* the same message while the database refuses every write *)
        let (ids, rest) = parse_ids rest in
        (match rest with
         | [ v; l ] ->
             do_op ~refused:true (ODecided (n_of_string h, { c_round = n_of_string r; c_signers = ids },
                              bool_of_string v, bool_of_string l)) (Some (n_of_string h))
         | _ -> failwith "decidedwf")
    | "LOCAL" :: h :: rest ->
        let (ids, _) = parse_ids rest in
        do_op (OLocal (n_of_string h, ids)) (Some (n_of_string h))
    | [ "RESTART" ] -> do_op ORestart None
    | _ -> ())
