(* Driver: replays the operation lines written by harness/cmd/hx-runner on the extracted models
   (Runner/PartialSig.v for C05, Runner/Model.v for C03) and prints the models' observations in the
   same format as the implementation's.  Parsing and printing only. *)
open Model
open Conv

(* ---- C05: NEW / POST ------------------------------------------------------------------------- *)

let parse_share (t : string) : share =
  if t = "g" then Good else Bad (n_of_string (String.sub t 1 (String.length t - 1)))

let string_of_share = function Good -> "g" | Bad k -> "b" ^ string_of_n k

let rec parse_inner k ws =
  if k = 0 then []
  else match ws with
    | s :: r :: t :: rest ->
        { p_signer = n_of_string s; p_root = n_of_string r; p_share = parse_share t } :: parse_inner (k - 1) rest
    | _ -> failwith "inner"

let rec nat_list_of k = if k = 0 then [] else nat_list_of (k - 1) @ [ n_of_int (k - 1) ]

let string_of_err = function
  | EOk -> "ok" | ENoDuty -> "noduty" | EBadMsg -> "badmsg" | ESlot -> "slot" | ESigner -> "signer"
  | ECount -> "count" | ERoot -> "root" | EBadQuorum -> "badquorum" | EBN -> "bn"

let string_of_dump g st =
  String.concat "|"
    (List.map (fun (_, m) ->
         if m = [] then "-"
         else
           let l = List.map (fun (s, x) -> (int_of_n s, string_of_share x)) m in
           let l = List.sort compare l in
           String.concat "," (List.map (fun (s, x) -> string_of_int s ^ x) l))
       (dump g st))

let post_cfg = ref { committee = []; quorum = O; duty_slot = N0; expected = [] }
let post_st = ref init_state

let do_post ws =
  match ws with
  | signer :: slot :: bnok :: k :: rest ->
      let m = { s_signer = n_of_string signer; s_slot = n_of_string slot;
                s_msgs = parse_inner (int_of_string k) rest } in
      let (st', o) = step !post_cfg !post_st (m, bool_of_string bnok) in
      post_st := st';
      let subs =
        if o.o_subs = [] then "-"
        else String.concat ","
            (List.map (fun s -> string_of_n s.sub_root ^ ":" ^
                                (match s.sub_sig with RValid -> "1" | RInvalid -> "0")) o.o_subs) in
      Printf.printf "OBS post %s subs=%s fin=%s cont=%s\n" (string_of_err o.o_err) subs
        (string_of_bool st'.finished) (string_of_dump !post_cfg st')
  | _ -> failwith "POST"

let () =
  iter_lines (function
    | "CASE" :: _ as w -> print_endline (String.concat " " w)
    | [ "END" ] -> print_endline "END"
    | "NEW" :: _role :: q :: slot :: nroots :: _n :: ids ->
        post_cfg := { committee = List.map n_of_string ids; quorum = nat_of_string q;
                      duty_slot = n_of_string slot; expected = nat_list_of (int_of_string nroots) };
        post_st := init_state
    | "POST" :: rest -> do_post rest
    | _ -> ())
