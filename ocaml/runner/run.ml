(* Driver: replays the operation lines written by harness/cmd/hx-runner on the extracted models
   (Runner/PartialSig.v for C05, Runner/Model.v for C03) and prints the models' observations in the
   same format as the implementation's.  Parsing and printing only. *)
open Model
open Conv

(* ---- C05: NEW / POST ------------------------------------------------------------------------- *)

let parse_share (t : string) : share =
  if t = "g" then Good else Bad (n_of_string (String.sub t 1 (String.length t - 1)))

let string_of_share = function Good -> "g" | Bad k -> "b" ^ string_of_n k

let rec parse_inner k ws =
  if k = 0 then []
  else match ws with
    | s :: r :: t :: rest ->
        { p_signer = n_of_string s; p_root = n_of_string r; p_share = parse_share t } :: parse_inner (k - 1) rest
    | _ -> failwith "inner"

let rec nat_list_of k = if k = 0 then [] else nat_list_of (k - 1) @ [ n_of_int (k - 1) ]

let string_of_err = function
  | EOk -> "ok" | ENoDuty -> "noduty" | EBadMsg -> "badmsg" | ESlot -> "slot" | ESigner -> "signer"
  | ECount -> "count" | ERoot -> "root" | EBadQuorum -> "badquorum" | EBN -> "bn"

let string_of_dump g st =
  String.concat "|"
    (List.map (fun (_, m) ->
         if m = [] then "-"
         else
           let l = List.map (fun (s, x) -> (int_of_n s, string_of_share x)) m in
           let l = List.sort compare l in
           String.concat "," (List.map (fun (s, x) -> string_of_int s ^ x) l))
       (dump g st))

let post_cfg = ref { committee = []; quorum = O; duty_slot = N0; expected = []; fix_multi = false }
let post_st = ref init_state

let do_post ws =
  match ws with
  | signer :: slot :: bnok :: k :: rest ->
      let m = { s_signer = n_of_string signer; s_slot = n_of_string slot;
                s_msgs = parse_inner (int_of_string k) rest } in
      let (st', o) = step !post_cfg !post_st (m, bool_of_string bnok) in
      post_st := st';
      let subs =
        if o.o_subs = [] then "-"
        else String.concat ","
            (List.map (fun s -> string_of_n s.sub_root ^ ":" ^
                                (match s.sub_sig with RValid -> "1" | RInvalid -> "0")) o.o_subs) in
      Printf.printf "OBS post %s subs=%s fin=%s cont=%s\n" (string_of_err o.o_err) subs
        (string_of_bool st'.finished) (string_of_dump !post_cfg st')
  | _ -> failwith "POST"

(* ---- C03: RNEW / RSTART / RMSG ---------------------------------------------------------------- *)

let role_of_string = function
  | "att" -> RAtt | "prop" -> RProp | "agg" -> RAgg | "sc" -> RSync | "scc" -> RSyncAgg
  | "vreg" -> RVReg | "vexit" -> RVExit | s -> failwith ("role " ^ s)

let string_of_role = function
  | RAtt -> "att" | RProp -> "prop" | RAgg -> "agg" | RSync -> "sc" | RSyncAgg -> "scc"
  | RVReg -> "vreg" | RVExit -> "vexit"

let string_of_domain = function
  | DRandao -> "randao" | DSelProof -> "selproof" | DScSelProof -> "scselproof" | DAttester -> "attester"
  | DProposer -> "proposer" | DAggProof -> "aggproof" | DSyncCom -> "synccom" | DContrib -> "contrib"
  | DAppBuilder -> "appbuilder" | DVolExit -> "volexit" | DNone -> "none"

let string_of_class = function
  | COk -> "ok" | CPassed -> "passed" | CNoStart -> "nostart" | CForeign -> "foreign" | CNoCons -> "nocons"
  | CCtrl -> "ctrl" | CWrongInst -> "wronginst" | CDecode -> "decode" | CInvalid -> "invalid"
  | CNoPhase -> "nophase" | CNoDecided -> "nodecided" | CNoInst -> "noinst" | CNotDecided -> "notdecided"
  | CPart e -> string_of_err e

let rec split_at_semi acc = function
  | [] -> (List.rev acc, [])
  | ";" :: rest -> (List.rev acc, rest)
  | x :: rest -> split_at_semi (x :: acc) rest

(* "<k> id1 .. idk rest" *)
let take_ids ws =
  match ws with
  | k :: rest ->
      let k = int_of_string k in
      let rec go k ws acc = if k = 0 then (List.rev acc, ws) else
          match ws with x :: tl -> go (k - 1) tl (n_of_string x :: acc) | [] -> failwith "ids" in
      go k rest []
  | [] -> failwith "ids"

let vcfg = ref { v_committee = []; v_quorum = O; v_fix_resign = false; v_fix_multi = false }
let vst = ref vinit
let cur_role = ref RAtt

let join = function [] -> "-" | l -> String.concat "," l

let print_vobs cls outs =
  let signs = List.filter_map (function
      | Sign (_, d, x) -> Some (string_of_domain d ^ ":" ^ string_of_n x) | _ -> None) outs in
  let bcasts = List.filter_map (function
      | Bcast (r, post, slot, objs) ->
          Some (Printf.sprintf "%s/%s/%s/%s" (string_of_role r) (if post then "post" else "pre")
                  (string_of_n slot) (String.concat "." (List.map string_of_n objs)))
      | _ -> None) outs in
  let state = match !vst !cur_role with
    | None -> "idle"
    | Some ds ->
        Printf.sprintf "%s/%s/%s/%s" (string_of_n ds.ds_duty.du_slot)
          (match ds.ds_running with Some h -> string_of_n h | None -> "-")
          (match ds.ds_decided with Some dv -> string_of_n dv.dv_id | None -> "-")
          (string_of_bool ds.ds_finished) in
  Printf.printf "OBS r %s sign=%s bcast=%s state=%s\n" (string_of_class cls) (join signs) (join bcasts) state

let do_vstep i =
  let ((v', cls), outs) = vstep !vcfg !vst i in
  vst := v';
  print_vobs cls outs

let do_rstart ws =
  let (args, oracle) = split_at_semi [] ws in
  match args, oracle with
  | role :: slot :: rest, [ ctrlh; instok ] ->
      let (pre, _) = take_ids rest in
      cur_role := role_of_string role;
      do_vstep (IStart (!cur_role, { du_slot = n_of_string slot; du_pre = pre }, n_of_string ctrlh,
                        bool_of_string instok))
  | _ -> failwith "RSTART"

let parse_smsg ws =
  match ws with
  | signer :: slot :: _bnok :: k :: rest ->
      { s_signer = n_of_string signer; s_slot = n_of_string slot; s_msgs = parse_inner (int_of_string k) rest }
  | _ -> failwith "smsg"

let do_rmsg ws =
  let (args, oracle) = split_at_semi [] ws in
  let rest = match args with
    | ("T" | "U") :: _ :: _ :: _ :: rest -> rest
    | "D" :: _ :: _ :: _ :: _ :: rest -> rest
    | _ -> failwith "RMSG ref" in
  match rest with
  | asrole :: pk :: kind :: margs ->
      cur_role := role_of_string asrole;
      let body =
        match kind with
        | "C" ->
            (match oracle with
             | cerr :: prev :: "0" :: _ ->
                 BCons { co_err = bool_of_string cerr; co_prev = bool_of_string prev; co_ret = None }
             | cerr :: prev :: "1" :: h :: vid :: dec :: valid :: dcslot :: objs ->
                 let (ids, _) = take_ids objs in
                 BCons { co_err = bool_of_string cerr; co_prev = bool_of_string prev;
                         co_ret = Some { dc_height = n_of_string h; dc_value = n_of_string vid;
                                         dc_decodes = bool_of_string dec; dc_valid = bool_of_string valid;
                                         dc_objs = ids; dc_slot = n_of_string dcslot } }
             | _ -> failwith "cons oracle")
        | "P" -> (match oracle with
            | [ _; instok ] -> BPre (parse_smsg margs, bool_of_string instok) | _ -> failwith "pre oracle")
        | "O" -> (match oracle with
            | [ instdec; _ ] -> BPost (parse_smsg margs, bool_of_string instdec) | _ -> failwith "post oracle")
        | _ -> failwith "RMSG kind" in
      do_vstep (IMsg (bool_of_string pk, !cur_role, body))
  | _ -> failwith "RMSG"

let () =
  iter_lines (function
    | "CASE" :: _ as w -> print_endline (String.concat " " w)
    | [ "END" ] -> print_endline "END"
    | "NEW" :: role :: q :: slot :: nroots :: _n :: ids ->
        (* which variant of the multi-root loop the source contains is read from the source
           (coq/Gen/RunnerConsts.v); only the sync-committee contribution runner has that loop *)
        post_cfg := { committee = List.map n_of_string ids; quorum = nat_of_string q;
                      duty_slot = n_of_string slot; expected = nat_list_of (int_of_string nroots);
                      fix_multi = (role = "scc") && fix_multi_root };
        post_st := init_state
    | "POST" :: rest -> do_post rest
    | [ "RNEW"; n ] ->
        let n = int_of_string n in
        vcfg := { v_committee = List.init n (fun i -> n_of_int (i + 1)); v_quorum = nat_of_int (n - (n - 1) / 3);
                  v_fix_resign = fix_resign; v_fix_multi = fix_multi_root };
        vst := vinit
    | "RSTART" :: rest -> do_rstart rest
    | "RMSG" :: rest -> do_rmsg rest
    | _ -> ())
