(* Driver: replays the operation lines written by harness/cmd/hx-ekm on the extracted model and
   prints the model's observations in the same format as the implementation's.
   The model describes ONE key share; the driver keeps one model state per share id (the shares
   use disjoint database keys) and applies clock ticks to all of them. *)
open Model
open Conv

let nshares = 2
let states = Array.make nshares (init source_cfg N0 N0)

let parse_env = function
  | c :: r :: rest ->
      { cut = (if c = "-" then None else Some (n_of_string c)); rfail = (r = "1");
        wfail = (match rest with w :: _ -> w = "1" | [] -> false) }
  | _ -> { cut = None; rfail = false; wfail = false }

let string_of_err = function
  | ENoAccount -> "noacct" | EFar -> "far" | EReadErr -> "readerr" | ENoRecord -> "norecord"
  | ENilRecord -> "nilrecord" | ESlashable -> "slashable" | EZeroSlot -> "zeroslot" | EWriteErr -> "writeerr"

let string_of_outcome = function
  | Done -> "done" | Released _ -> "rel" | Refused e -> "refuse:" ^ string_of_err e | Crashed -> "crash"

let string_of_store s =
  let a = match s.att with
    | RMissing -> "-" | RBad -> "bad" | REmpty -> "nil"
    | RVal (x, y) -> string_of_n x ^ "," ^ string_of_n y in
  let p = match s.prop with
    | RMissing -> "-" | RBad -> "bad" | REmpty -> "nil" | RVal x -> string_of_n x in
  Printf.sprintf "%s/%s/%s" a p (if s.acct then "1" else "0")

let print_obs out =
  print_string ("OBS " ^ out);
  Array.iteri (fun k x -> Printf.printf " s%d=%s" k (string_of_store x.st)) states;
  print_newline ()

let do_op k o =
  let (x', r) = step states.(k) o in
  states.(k) <- x';
  print_obs (string_of_outcome r.o_out)

let all o = Array.iteri (fun k x -> states.(k) <- fst (step x o)) states

let () =
  iter_lines (function
    | "CASE" :: _ as w -> print_endline (String.concat " " w)
    | [ "END" ] -> print_endline "END"
    | [ "NEW"; c; h ] -> Array.iteri (fun k _ -> states.(k) <- init source_cfg (n_of_string c) (n_of_string h)) states
    | [ "TICK"; d ] -> all (OTick (n_of_string d))
    | [ "RESTART" ] -> all ORestart; print_obs "done"
    | "ADD" :: k :: e -> do_op (int_of_string k) (OAdd (parse_env e))
    | "REMOVE" :: k :: e -> do_op (int_of_string k) (ORemove (parse_env e))
    | "REACT" :: k :: e -> do_op (int_of_string k) (OReact (parse_env e))
    | "SIGNATT" :: k :: s :: t :: e ->
        do_op (int_of_string k) (OSignAtt (n_of_string s, n_of_string t, parse_env e))
    | "SIGNBLK" :: k :: sl :: e -> do_op (int_of_string k) (OSignBlk (n_of_string sl, parse_env e))
    | "CHKATT" :: k :: s :: t :: e ->
        do_op (int_of_string k) (OCheckAtt (n_of_string s, n_of_string t, parse_env e))
    | "CHKBLK" :: k :: sl :: e -> do_op (int_of_string k) (OCheckBlk (n_of_string sl, parse_env e))
    | [ "CORRUPT"; k; kind ] ->
        do_op (int_of_string k)
          (OCorrupt (match kind with
             | "attgarbage" -> CAttGarbage | "attempty" -> CAttEmpty | "propempty" -> CPropEmpty
             | _ -> failwith "corrupt"))
    | _ -> ())
