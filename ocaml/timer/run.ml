(* Driver: replays the operation lines written by harness/cmd/hx-timer on the extracted model
   (coq/Timer/Model.v: [step] for the timer, [cstep] for the controller, [deadline]/[round_timeout]
   for the deadline tables) and prints the model's observations in the same format as the
   implementation's.  Parsing and printing only; times are nanoseconds relative to the start of
   the case. *)
open Model
open Conv

(* signed numbers (the shared convz.ml is not used) *)
let z_of_string (s : string) : z =
  let v = ZA.of_string s in
  if ZA.sign v = 0 then Z0 else if ZA.sign v > 0 then Zpos (pos_of_z v) else Zneg (pos_of_z (ZA.neg v))

let string_of_z (x : z) : string =
  match x with
  | Z0 -> "0"
  | Zpos p -> ZA.to_string (z_of_pos p)
  | Zneg p -> ZA.to_string (ZA.neg (z_of_pos p))

let zt_of_z (x : z) : ZA.t = ZA.of_string (string_of_z x)

let role_of_string = function
  | "attester" -> RAttester
  | "aggregator" -> RAggregator
  | "proposer" -> RProposer
  | "sync" -> RSyncCommittee
  | "contribution" -> RSyncContribution
  | _ -> ROther

let string_of_result = function
  | TNoInstance -> "noinstance"
  | TOldRound -> "oldround"
  | TDecided -> "decided"
  | TStopped -> "stopped"
  | TBumped r -> "bumped " ^ string_of_n r

let string_of_effects l =
  if l = [] then "-"
  else
    String.concat ","
      (List.map
         (function
           | EBroadcastRoundChange (h, r) -> "rc:" ^ string_of_n h ^ ":" ^ string_of_n r
           | EArmTimer (h, r) -> "arm:" ^ string_of_n h ^ ":" ^ string_of_n r)
         l)

let () =
  let o = ref default_opts in
  let ro = ref RAttester in
  let b = ref { slot_duration = Z0; slot_start = (fun _ -> Z0) } in
  let s = ref init in
  let c = ref cinit in
  let tstep x = let (s', r) = step !o !b !ro !s x in s := s'; r in
  iter_lines (function
    | "CASE" :: _ as w ->
        print_endline (String.concat " " w);
        s := init;
        c := cinit
    | [ "END" ] -> print_endline "END"
    (* SETUP role slot-duration slot-0-start threshold quick slow *)
    | [ "SETUP"; role; dur; g; th; q; sl ] ->
        ro := role_of_string role;
        let durz = ZA.of_string dur and gz = ZA.of_string g in
        b := { slot_duration = z_of_string dur;
               slot_start = (fun h -> z_of_string (ZA.to_string (ZA.add gz (ZA.mul (zt_of_n h) durz)))) };
        o := { o_threshold = n_of_string th; o_quick = z_of_string q; o_slow = z_of_string sl };
        s := init
    | [ "DEFAULTS"; role; dur; g ] ->
        ro := role_of_string role;
        let durz = ZA.of_string dur and gz = ZA.of_string g in
        b := { slot_duration = z_of_string dur;
               slot_start = (fun h -> z_of_string (ZA.to_string (ZA.add gz (ZA.mul (zt_of_n h) durz)))) };
        o := default_opts;
        s := init
    (* RT height round: the deadline relative to the slot start, or the relative timeout *)
    | [ "RT"; h; r ] ->
        let h = n_of_string h and r = n_of_string r in
        (match base_duration !b !ro with
         | Some _ ->
             let d = deadline !o !b !ro Z0 h r in
             Printf.printf "OBS rt abs %s\n"
               (ZA.to_string (ZA.sub (zt_of_z d) (zt_of_z (!b.slot_start h))))
         | None -> Printf.printf "OBS rt rel %s\n" (string_of_z (round_timeout !o !b !ro Z0 h r)))
    | [ "ARM"; t; h; r ] ->
        (match tstep (OArm (z_of_string t, n_of_string h, n_of_string r)) with
         | RArmed p -> Printf.printf "OBS armed %s\n" (string_of_n p.p_round)
         | _ -> print_endline "OBS armed ?")
    | [ "CB"; t; r ] ->
        let rn = n_of_string r in
        (match id_of_round rn !s.pend with
         | None -> Printf.printf "OBS cb %s nosuch\n" r
         | Some id ->
             (match tstep (OExpire (z_of_string t, id)) with
              | RCalled (p, _, _, _) -> Printf.printf "OBS cb %s fired\n" (string_of_n p.p_round)
              | RSuppressed _ -> Printf.printf "OBS cb %s suppressed\n" r
              | RNotDue -> Printf.printf "OBS cb %s notdue\n" r
              | _ -> Printf.printf "OBS cb %s nosuch\n" r))
    | [ "WAKE"; t; r ] ->
        let rn = n_of_string r in
        (match id_of_round rn !s.pend with
         | None -> Printf.printf "OBS wake %s nosuch\n" r
         | Some id ->
             (match tstep (OWake (z_of_string t, id)) with
              | RGuard (_, true) -> Printf.printf "OBS wake %s passed\n" r
              | RGuard (_, false) -> Printf.printf "OBS wake %s failed\n" r
              | RNotDue -> Printf.printf "OBS wake %s notdue\n" r
              | _ -> Printf.printf "OBS wake %s nosuch\n" r))
    | [ "CALL"; t; r ] ->
        let rn = n_of_string r in
        (match id_of_round rn !s.woken with
         | None -> Printf.printf "OBS cb %s nosuch\n" r
         | Some id ->
             (match tstep (OCall (z_of_string t, id)) with
              | RCalled (p, _, a, _) ->
                  Printf.printf "OBS cb %s fired while armed for %s\n" (string_of_n p.p_round) (string_of_n a)
              | _ -> Printf.printf "OBS cb %s nosuch\n" r))
    | [ "CANCEL"; t ] -> ignore (tstep (OCancel (z_of_string t))); print_endline "OBS cancelled"
    (* controller *)
    | [ "CSTART"; h ] ->
        let (c', r) = cstep !c (CStart (n_of_string h)) in
        c := c';
        (match r with CRStart ok -> Printf.printf "OBS cstart %s\n" (string_of_bool ok) | _ -> ())
    | [ "CDECIDED"; h; r ] ->
        let (c', _) = cstep !c (CDecided (n_of_string h, n_of_string r)) in
        c := c'; print_endline "OBS cdecided"
    | [ "CTIMEOUT"; h; r ] ->
        let (c', res) = cstep !c (CTimeout (n_of_string h, n_of_string r)) in
        c := c';
        (match res with
         | CRTimeout (res, changed, eff) ->
             Printf.printf "OBS ctimeout %s changed=%s effects=%s\n" (string_of_result res)
               (string_of_bool changed) (string_of_effects eff)
         | _ -> ())
    | _ -> ())
