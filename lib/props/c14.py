"""C14 - the validator message queue neither loses nor duplicates messages."""
ID = "C14"
COQ_TARGETS = ["Props/C14.vo"]
AREA = "queue"
EXTRACT_V = "Queue/Extract.v"
GO_CMD = "hx-queue"
NO_MODEL_RUNS = ("concurrent", "wait")   # interleaving-dependent: only the monitor (multiset law) applies
RULE = ("operation sequences (push / try-pop / pop with a finished context) over messages of all "
        "body kinds with 5 filter families incl. reject-all and the two consumer filters; "
        "non-trivial = the case contains a pop whose filter rejects at least one queued message "
        "(pop result '-' with a non-empty queue, or ids/exec/hold/none filter used); distinct by op lines")
TRUSTED_BASE = [
    "modelled, not verified: protocol/v2/ssv/queue/{queue.go,message_prioritizer.go,messages.go}; "
    "the two filters of Validator.ConsumeQueue are re-implemented in the driver for the direct queue runs; the 'consumer' runs "
    "execute the real Validator.ConsumeQueue (hook VerifNewConsumerValidator, stub duty runner) and compare the hand-over order "
    "with pops under the state and filter it has to derive from the runner",
    "hook protocol/v2/ssv/queue/verif_hooks.go (lastRead setter) decides whether Pop reads the inbox first",
]
ASSUMPTIONS = [
    "Go channel sends are atomic: a concurrent producer is an interleaved TryPush/Push step",
    "Pop is only modelled for a context that is already done (a blocking Pop with a live context is "
    "exercised by the concurrent run, where only the multiset law is asserted)",
    "single consumer (documented requirement of the queue)",
]


def runs(tier, seed):
    if tier == "thorough":
        r = [("exhaustive", ["exhaustive"]), ("prior", ["prior"])]
        r += [("gen%d" % i, ["gen", "-seed", str(seed * 1000 + i), "-n", "4000"]) for i in range(12)]
        r += [("concurrent", ["concurrent", "-seed", str(seed), "-n", "300"])]
        r += [("consumer%d" % i, ["consumer", "-seed", str(seed * 10 + i), "-n", "1500"]) for i in range(4)]
        r += [("wait", ["wait", "-seed", str(seed), "-n", "1500"])]
        return r
    return [("prior", ["prior"]), ("exhaustive", ["exhaustive"]),
            ("gen", ["gen", "-seed", str(seed), "-n", "1500"]),
            ("concurrent", ["concurrent", "-seed", str(seed), "-n", "30"]),
            ("consumer", ["consumer", "-seed", str(seed), "-n", "300"]),
            ("wait", ["wait", "-seed", str(seed), "-n", "150"])]   # a blocking pop that has to wait: monitor only


def search_runs(tier, seed):
    return [("gen%d" % i, ["gen", "-seed", str(seed * 7919 + i), "-n", "5000"]) for i in range(4)] + \
           [("exhaustive", ["exhaustive"])]


def nontrivial(case):
    for l in case.lines:
        if l.startswith(("TRYPOP", "POPDONE")) and (" none" in l or " ids " in l or " exec" in l or " hold " in l):
            return True
        if l.startswith("CONC"):
            return True
    return False


def matches_known(finding, case):
    return False

TECHNIQUE = "Coq proof over all operation sequences of an executable queue model + differential correspondence (exhaustive small sequences, exhaustive Prior table, random histories) against the real queue"
LEVEL_TEXT = ("Machine-checked theorems (conservation as a multiset equation over every op sequence, pop returns only "
              "filter-admitted queued messages, pop finds an admissible message whenever one is queued, the result is "
              "maximal for Prior, Prior is the lexicographic total preorder on a 5-component key that refines the "
              "documented coarse order) about a Gallina model of queue.go/message_prioritizer.go/messages.go; the model is "
              "tied to the code by running both on the same operation sequences (all push sequences of <= 4 messages "
              "from a 6-message alphabet x 4 pop scripts x 2 pop kinds, the complete Prior table over message classes, "
              "random histories) and diffing every observation. Proof is the right level because the property "
              "quantifies over all histories and filters; the unit tests sample nine.")
LEVEL_NOTE = ("Trusted: Coq kernel + vm_compute, extraction (ExtrOcamlBasic), OCaml/Go drivers, the abstraction of a message "
              "to (event type | height, round, type, #signers | slot, partial type). Concurrency inside a channel send is "
              "assumed atomic; a blocking Pop with a live context is only stress-tested (multiset law).")
