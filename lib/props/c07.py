"""C07 - consensus can always still terminate while at most f operators are faulty."""
ID = "C07"
COQ_TARGETS = ["Props/C07.vo"]
AREA = "qbft"
EXTRACT_V = "Qbft/Extract.v"
GO_CMD = "hx-qbft"
VIOL_TAG = "c07"
PARALLEL = 16
NO_MINIMISE = True
RULE = ("controller-level network runs of 4 and 7 real operators with <= f Byzantine ones under the adversarial scheduler "
        "(prefix), followed by the explicit timely continuation: Byzantine operators silent, every message a correct "
        "operator ever broadcast is (re)delivered, round-changes carrying a prepared value are delivered after the "
        "others, the operators in the lowest round time out when the network is quiet. The timeout rule is asserted by "
        "a monitor on every timeout (round+1, accepted proposal cleared, round-change for the new round broadcast); how "
        "many further rounds the continuation needs until every correct operator decided is MEASURED (DIST recover-*), "
        "a failing continuation is counted and sampled but is not a violation, because C07's first sentence is "
        "existential. Non-trivial = history with >= 1 timeout; distinct by op lines")
TRUSTED_BASE = [
    "modelled, not verified: instance.UponRoundTimeout, Controller.OnTimeout, uponRoundChange / uponChangeRoundPartialQuorum / "
    "hasReceivedProposalJustificationForLeadingRound, specqbft.RoundRobinProposer (Go int arithmetic incl. wrap-around)",
    "the fault-free synchronous theorem is proved for every committee (Qbft/SyncGeneric.v: induction over the committee list, "
    "any distinct non-zero ids, any quorum in 1..n, any height whose leader computation succeeds); the complete evaluation "
    "(vm_compute) of the 34 whole-committee executions for sizes 4/7/10/13 is kept beside it",
]
ASSUMPTIONS = [
    "partial synchrony in the continuation: messages are delayed, never lost; timers of operators in lower rounds expire first",
    "the recovery claim 'from EVERY reachable state within f+3 rounds' is explored, not proved (DESIGN.md section 7)",
]
TECHNIQUE = ("Coq theorems (timeout rule for all states; leader index and rotation for all committees; fault-free synchronous "
             "round for every committee by induction, and by exhaustive evaluation for the admitted committee sizes) + differential check and measured timely continuations on the real controllers")
LEVEL_TEXT = ("Machine-checked: before the cut-off a timeout moves EVERY instance state to the next round, clears the accepted "
              "proposal, re-arms the timer and broadcasts a round-change carrying the prepared round/value iff the operator had "
              "prepared (full, all states); the controller forwards current-round timeouts of undecided instances; the leader is "
              "committee[(height mod n + round - 1) mod n] and every member leads within n rounds (all committees < 1000, heights "
              "and rounds < 2^62); in the fault-free synchronous first round every operator decides the leader's value, broadcasting "
              "exactly one prepare and one commit (the leader also its proposal) and staying in round 1 - for EVERY committee of "
              "distinct non-zero ids, every quorum between 1 and its size, every height and leader (C07_sync_fault_free, "
              "C07_sync_fault_free_generic; also evaluated for sizes 4, 7, 10, 13). "
              "Recovery is PROVED for one family of states, for every committee: after a silent first round (nothing delivered, "
              "up to n - quorum operators silent) the live operators decide the round-2 leader's value in round 2, and what they "
              "broadcast is what the schedule delivers (C07_recovery_from_silent_round); and after a first round that PREPARED the "
              "leader's value everywhere but delivered no commit, round 2 re-proposes and decides that value "
              "(C07_recovery_from_prepared_round). "
              "PARTIAL: recovery from every reachable state is explored on the real code (timely continuation after adversarial "
              "prefixes, rounds needed are measured), not proved.")
LEVEL_NOTE = ("Partial claim: C07's existential recovery sentence is supported by exploration only; a heuristic continuation that "
              "fails to decide is reported in the evidence (recover-not-decided counter + note) and not as a violation. "
              "Observed while building: the leader's justification uses the FullData of the quorum-completing round-change, so "
              "whether a leader proposes depends on delivery order (DESIGN.md, C07).")


NO_MODEL_RUNS = ("netfail",)


def runs(tier, seed):
    k = 6 if tier == "thorough" else 1
    r = [("rec4-%d" % i, ["net", "-level", "ctrl", "-recover", "-seed", str(seed * 100 + i), "-n", str(10 * k), "-size", "4", "-steps", "80"]) for i in range(10)]
    r += [("rec7-%d" % i, ["net", "-level", "ctrl", "-recover", "-seed", str(seed * 100 + 40 + i), "-n", str(2 * k), "-size", "7", "-steps", "100"]) for i in range(5)]
    r += [("inst4-%d" % i, ["net", "-level", "inst", "-seed", str(seed * 100 + 70 + i), "-n", str(10 * k), "-size", "4"]) for i in range(1)]
    # monitor only: every third timeout finds the network down (the model has no failing publish)
    r += [("netfail-%d" % i, ["net", "-level", "ctrl", "-netfail", "-seed", str(seed * 100 + 80 + i), "-n", str(10 * k), "-size", "4", "-steps", "80"]) for i in range(2)]
    return r


def search_runs(tier, seed):
    # only reached after a correspondence break: now a failing timely continuation is a failing input
    return [("s%d" % i, ["net", "-level", "ctrl", "-recover", "-strict", "-seed", str(seed * 983 + i), "-n", "40", "-size", "4", "-steps", "80"]) for i in range(8)]


def nontrivial(case):
    return any(l.startswith(("CTIMEOUT", "TIMEOUT")) for l in case.lines)


def matches_known(finding, case):
    return False
