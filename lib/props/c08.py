"""C08 - no network input can crash message validation or decoding."""
import os

ID = "C08"
COQ_TARGETS = ["Props/C08.vo"]
AREA = "validation"
EXTRACT_V = "Validation/Extract.v"
GO_CMD = "hx-val"
NO_MODEL_RUNS = ("race",)       # interleaving-dependent: only the monitors apply
PARALLEL = 8
RULE = ("validations of structurally valid messages (all four QBFT types, decided, pre/post partial signatures, all "
        "roles, committees of 4/7/10/13 and one with sparse ids, known/unknown/liquidated/metadata-less/exited/pending "
        "validators, signed and unsigned era) with every mutation of a table of ~85 single mutations, adversarial "
        "field values (0, 1, 2^62, 2^63, 2^64-1 and their neighbours of the current slot for round/height/slot, "
        "out-of-range types and roles, 0/1/q-1/q/n/n+1/13/14 signers), after prefixes of accepted messages, plus the "
        "hand-written decoders on their abstract inputs (incl. node-record entries of every short length), >= 10^5 random/mutated byte strings on the generated "
        "decoders and the metrics-label stream; non-trivial = a case whose message under test is not the plain honest message (mutation != none, "
        "adversarial values, history with replays) or a decoder case; distinct by op lines")
TRUSTED_BASE = [
    "modelled, not verified: message/validation/*.go, network/commons/common.go (DecodeSignedSSVMessage), "
    "network/records/subnets.go (FromString, SharedSubnets), signed_node_info.go (post-JSON logic), entries.go "
    "(DomainTypeEntry.DecodeRLP after the RLP string is read), "
    "ssv-spec RoundRobinProposer; Go's time.Time/Duration arithmetic is re-stated in the model",
    "oracle bits of the abstract envelope computed by the driver with real code: SSZ/JSON decoders, SHA-256 root "
    "comparison, RSA verification (crypto/rsa), BLS public key deserialisation, instance.IsProposalJustification, "
    "duty-store lookups",
    "hook message/validation/verif_hooks.go (explicit receivedAt, read-only signer-state dump)",
    "generator harness/cmd/gen-valconsts (go/parser + go/constant) for coq/Gen/ValidationConsts.v",
]
ASSUMPTIONS = [
    "committees have at most 13 members (registry contract limit) - needed for the leader index arithmetic",
    "slot duration and slots per epoch are positive (network constants)",
    "the operator registry and the share registry do not change during a history (the validator's public-key cache "
    "is then a function of the registry)",
    "generated SSZ / JSON / libp2p-envelope decoders: NOT a theorem - fuzz-style testing under recover(), a 5 s "
    "per-call deadline, an allocation bound per call, a 2 GiB soft memory limit and a 16 GiB address-space limit",
    "concurrent validations are only stress-tested (race mode); the theorems are about sequential histories",
]


def pre_coq(V):
    """Regenerate coq/Gen/ValidationConsts.v from the repository under check."""
    mod = V.go_modfile()
    exe = os.path.join(V.BIN, "hx-gen-valconsts")
    lock = os.path.join(V.WORK, "gen-valconsts.lock")
    os.makedirs(V.WORK, exist_ok=True)
    V.sh(["flock", lock, "go", "build", "-modfile", mod, "-o", exe, "./cmd/gen-valconsts"], cwd=V.HARNESS, env=V.GOENV,
         timeout=600)
    p = V.sh(["flock", lock, exe, V.REPO, os.path.join(V.COQ, "Gen", "ValidationConsts.v")], check=False)
    if p.returncode != 0:
        # the sources no longer have the shape the tables are read from: the Coq build below will
        # fail or use stale tables; make that visible instead of silently continuing
        open(os.path.join(V.COQ, "Gen", "ValidationConsts.v"), "a").write(
            "\n(* generator refused: %s *)\nDefinition generator_refused : True := I I.\n" % p.stdout.strip().replace("*)", "* )"))


def runs(tier, seed):
    P = ["-prop", ID]
    if tier == "thorough":
        r = [("table", ["validate", "-stream", "table", "-seed", str(seed)] + P)]
        r += [("mut%d" % i, ["validate", "-stream", "mut", "-seed", str(seed * 100 + i), "-n", "1500"] + P) for i in range(5)]
        r += [("adv%d" % i, ["validate", "-stream", "adv", "-seed", str(seed * 100 + i), "-n", "3000"] + P) for i in range(4)]
        r += [("hist%d" % i, ["validate", "-stream", "hist", "-seed", str(seed * 100 + i), "-n", "400"] + P) for i in range(3)]
        r += [("decode%d" % i, ["decode", "-seed", str(seed * 100 + i), "-n", "60000"] + P) for i in range(2)]
        r += [("race", ["race", "-seed", str(seed), "-n", "200"] + P)]
        return r
    return [("table", ["validate", "-stream", "table", "-seed", str(seed)] + P),
            ("mut", ["validate", "-stream", "mut", "-seed", str(seed), "-n", "300"] + P),
            ("adv", ["validate", "-stream", "adv", "-seed", str(seed), "-n", "600"] + P),
            ("hist", ["validate", "-stream", "hist", "-seed", str(seed), "-n", "60"] + P),
            ("decode", ["decode", "-seed", str(seed), "-n", "8000"] + P),
            ("race", ["race", "-seed", str(seed), "-n", "12"] + P)]


def search_runs(tier, seed):
    P = ["-prop", ID]
    return [("adv", ["validate", "-stream", "adv", "-seed", str(seed * 7919 + 1), "-n", "3000"] + P),
            ("mut", ["validate", "-stream", "mut", "-seed", str(seed * 7919 + 2), "-n", "1000"] + P)]


def nontrivial(case):
    h = case.header
    if " adv " in h or " hist " in h or "handwritten" in h or "fuzz" in h or "race" in h or "corpus" in h:
        return True
    return "mut=" in h and "mut=none" not in h


def matches_known(finding, case):
    return False


TECHNIQUE = ("Coq proof that an executable model of validateP2PMessage/validateSSVMessage never reaches a panic site, "
             "for all inputs and histories + totality proofs of the hand-written decoders + differential "
             "correspondence against the real validator (mutation table, adversarial values, histories) + fuzz-style "
             "runs of the generated decoders")
LEVEL_TEXT = ("Machine-checked theorems: for every configuration with committees of at most 13, every state, every "
              "reception time and every abstract envelope (all field values, unknown types and roles, any signer "
              "list, any oracle bits) validate returns accept/ignore/reject - each Go construct that can panic "
              "(default: panic arms of maxRound, partialSignatureTypeMatchesRole, MessageCounts.{Validate,Record}*, "
              "RoundRobinProposer's index and modulo, array conversion, nil metadata, type assertions) is an explicit "
              "Panic branch of the model and is shown unreachable; the same over all histories; "
              "DecodeSignedSSVMessage, Subnets.FromString, SharedSubnets, the node-record entry decoder "
              "DomainTypeEntry.DecodeRLP (F12, repaired) and the post-JSON part of "
              "SignedNodeInfo.UnmarshalRecord are total. The model follows the Go code statement by statement and is "
              "tied to it by running both on the same inputs and diffing verdict class, error and the complete "
              "signer state after every validation. Proof is the right level because a crash needs one particular "
              "field combination (F1: round 0 in a proposal; F9: a short subnets string) that sampling does not reach.")
LEVEL_NOTE = ("PARTIAL for 'hanging or allocating without bound' and for the generated SSZ/JSON/envelope decoders: these "
              "are exercised (>= 10^5 byte strings per run under recover(), deadline and allocation bound), not proved. "
              "Trusted: Coq kernel + vm_compute, extraction, OCaml/Go drivers, the abstraction of a message to the "
              "envelope record with oracle bits, the re-statement of Go's time arithmetic. 'Allocating without bound' is "
              "checked for one concrete mechanism only (F11, repaired): 3 x 10^5 messages with distinct attacker-chosen "
              "round / message-type values through ValidatePubsubMessage with the REAL metrics reporter must leave less "
              "than 20 MiB of live heap behind (the defect left 148 MB).")
