"""C13 - every finalized-enough block's events are delivered once, in order."""
ID = "C13"
COQ_TARGETS = ["Props/C13.vo"]
AREA = "execclient"
EXTRACT_V = "ExecClient/Extract.v"
GO_CMD = "hx-stream"
NO_MODEL_RUNS = ("packx",)   # sort.Slice on long unordered slices is not stable: only the monitor applies
PARALLEL = 12
RUN_TIMEOUT = 1200
RULE = ("one case = a chain (logs per block with removed flags, up to 38 logs in a block), follow distance, batch "
        "size, start block and an environment schedule (subscribe ok/fail, heads - increasing, repeated, older, "
        "below the follow distance - each with an optional failure of its k-th eth_getLogs call by node error / "
        "connection cut / context cancellation, subscription error, connection drop while idle, failing dials, "
        "cancellation), run as EventSyncer.SyncOngoing, SyncHistory, or SyncHistory followed by SyncOngoing; plus "
        "PackLogs on explicit lists; non-trivial = the case injects at least one failure (SUBFAIL / SUBERR / DROP / "
        "a HEAD or HIST with a failing eth_getLogs call); distinct by operation lines")
TRUSTED_BASE = [
    "modelled, not verified: eth/executionclient/{execution_client.go (StreamLogs, streamLogsToChan, "
    "fetchLogsInBatches, FetchHistoricalLogs), logs.go (PackLogs)}, eth/eventsyncer/event_syncer.go (SyncHistory, "
    "SyncOngoing); the 12 lines of cli/operator/node.go that pick SyncOngoing's start block are re-implemented in the driver",
    "fake execution node (go-ethereum rpc.Server over websocket on httptest, listener wrapper that cuts connections); "
    "no hook in /repo is needed: the driver uses the public options (WithMetrics, WithLogger with a fatal hook that "
    "turns logger.Fatal into Goexit, reconnection interval 1 ms)",
    "go-ethereum v1.13.5 rpc/ethclient (websocket client, subscription forwarding) and Go's sort.Slice",
]
ASSUMPTIONS = [
    "eth_getLogs returns the logs of the requested range in (block, log index) order with non-decreasing transaction "
    "index inside a block (what execution nodes do); on such input PackLogs' sort moves nothing, which relies on "
    "sort.Slice leaving an already ordered slice untouched (true for Go 1.19-1.23 pdqsort, not promised by its "
    "documentation). On unordered input of more than 12 logs sort.Slice does reorder logs of one transaction "
    "(counter pack_log_index_order_not_restored; hardening patch work/C13-packlogs-stable.patch)",
    "the chain below head - follow distance does not change (no reorg deeper than the follow distance)",
    "block numbers stay below 2^64 - batch size, so fromBlock + logBatchSize - 1 and the loop increment do not wrap "
    "(the model computes in unbounded N; C13_nothing_beyond_heads bounds every block number by the highest head - follow)",
    "logBatchSize >= 1 (0 makes fetchLogsInBatches loop forever)",
    "scheduling: the next event is injected only when the client is quiescent (blocked in eth_subscribe, back in the "
    "select of streamLogsToChan as signalled by its last metrics call, or terminated); a head that arrives while the "
    "client is still fetching for the previous one is not exercised - streamLogsToChan handles heads strictly one "
    "after the other from an unbuffered channel, so such a head is seen after the fetch, which is a schedule the "
    "model covers",
    "ExecutionClient.Close() and a context cancelled during reconnect are not modelled (no delivery follows either)",
]
TECHNIQUE = ("Coq proof over all chains, configurations and environment schedules of an executable model of the stream "
             "cursor logic + differential correspondence of the real ExecutionClient/EventSyncer against a scripted "
             "in-process execution node (exhaustive failure placement over short head sequences, random schedules)")
LEVEL_TEXT = ("Machine-checked theorems about a Gallina model of StreamLogs/streamLogsToChan/fetchLogsInBatches/PackLogs/"
              "FetchHistoricalLogs (and SyncHistory followed by SyncOngoing): for every chain, start block, follow "
              "distance, batch size >= 1 and every schedule of subscription failures, fetch failures, connection drops, "
              "cancellations and heads, the delivered stream minus its empty batch markers is exactly the list of the "
              "chain's blocks with non-removed logs from the start block up to the cursor, each once, in increasing "
              "order, each with exactly its logs; markers are upper ends of log-free eth_getLogs ranges; nothing lies "
              "beyond the highest head - follow; whenever the client is idle after head h the cursor is past h - follow. "
              "The cursor logic before the fix dfd84eefb is kept as a second model and refuted by vm_compute witnesses. "
              "The model is tied to the code by running both on the same schedules and diffing eth_getLogs ranges, "
              "delivered entries, metrics values and the client's state (subscribing / idle / done / fatal) after every "
              "event. Proof is the right level because a lost block needs a failure at one particular moment of one "
              "particular batch; the property quantifies over all placements.")
LEVEL_NOTE = ("Trusted: Coq kernel + vm_compute, extraction (ExtrOcamlBasic), OCaml/Go drivers, the fake node, go-ethereum's "
              "client, the quiescence protocol of the driver (events are not injected while the client is busy). "
              "Liveness is outside the statement: go-ethereum v1.13.5 can leave an eth_getLogs call hanging when the "
              "connection dies right after the request was written, and FilterLogs has no timeout; the driver re-runs a "
              "case in which this third-party race shows (counter rerun_after_client_library_hang).")


def runs(tier, seed):
    if tier == "thorough":
        r = [("exhaustive%d" % i, ["exhaustive", "-heads", "5", "-shard", "%d/24" % i]) for i in range(24)]
        r += [("gen%d" % i, ["gen", "-seed", str(seed * 1000 + i), "-n", "5000"]) for i in range(12)]
        r += [("pack", ["pack", "-seed", str(seed), "-n", "30000"]), ("packx", ["packx", "-seed", str(seed), "-n", "10000"])]
        return r
    r = [("exhaustive%d" % i, ["exhaustive", "-heads", "3", "-shard", "%d/4" % i]) for i in range(4)]
    r += [("gen%d" % i, ["gen", "-seed", str(seed * 100 + i), "-n", "500"]) for i in range(3)]
    r += [("pack", ["pack", "-seed", str(seed), "-n", "3000"]), ("packx", ["packx", "-seed", str(seed), "-n", "1000"])]
    return r


def search_runs(tier, seed):
    return [("gen%d" % i, ["gen", "-seed", str(seed * 7919 + i), "-n", "1500"]) for i in range(4)] + \
           [("exhaustive", ["exhaustive", "-heads", "4", "-shard", "0/8"])]


def nontrivial(case):
    for l in case.lines:
        if l.startswith(("SUBERR", "DROP", "SUBFAIL")):
            return True
        if l.startswith(("HEAD", "HIST")) and l.split()[-1] in ("err", "drop", "cancel"):
            return True
    return False


def matches_known(finding, case):
    return False
