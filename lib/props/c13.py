"""C13 - every finalized-enough block's events are delivered once, in order."""
ID = "C13"
COQ_TARGETS = ["Props/C13.vo"]
AREA = "execclient"
EXTRACT_V = "ExecClient/Extract.v"
GO_CMD = "hx-stream"
NO_MODEL_RUNS = ("packx",)
PARALLEL = 8
RUN_TIMEOUT = 900
RULE = "tbd"
TRUSTED_BASE = []
ASSUMPTIONS = []
TECHNIQUE = "tbd"
LEVEL_TEXT = "tbd"
LEVEL_NOTE = "tbd"


def runs(tier, seed):
    if tier == "thorough":
        r = [("exhaustive%d" % i, ["exhaustive", "-heads", "5", "-shard", "%d/16" % i]) for i in range(16)]
        r += [("gen%d" % i, ["gen", "-seed", str(seed * 1000 + i), "-n", "6000"]) for i in range(12)]
        r += [("pack", ["pack", "-seed", str(seed), "-n", "20000"]), ("packx", ["packx", "-seed", str(seed), "-n", "5000"])]
        return r
    r = [("exhaustive%d" % i, ["exhaustive", "-heads", "3", "-shard", "%d/4" % i]) for i in range(4)]
    r += [("gen%d" % i, ["gen", "-seed", str(seed * 100 + i), "-n", "500"]) for i in range(3)]
    r += [("pack", ["pack", "-seed", str(seed), "-n", "2000"]), ("packx", ["packx", "-seed", str(seed), "-n", "500"])]
    return r


def search_runs(tier, seed):
    return [("gen%d" % i, ["gen", "-seed", str(seed * 7919 + i), "-n", "1500"]) for i in range(4)]


def nontrivial(case):
    return any(l.startswith(("SUBERR", "DROP", "SUBFAIL")) or (l.startswith(("HEAD", "HIST")) and l.split()[-1] in ("err", "drop", "cancel")) for l in case.lines)


def matches_known(finding, case):
    return False
