"""C10 - messages produced by correct operators are never rejected by correct peers."""
ID = "C10"
COQ_TARGETS = ["Props/C10.vo"]
AREA = None
GO_CMD = "hx-c10"
VIOL_TAG = "c10"
PARALLEL = 16
NO_MINIMISE = True
RULE = ("real controllers of all operators of a committee (4 and 7) run one duty of a consensus role (attester, aggregator, "
        "proposer, sync committee, contribution) in lock-step rounds that respect the timing assumptions: every broadcast of a "
        "correct operator reaches every peer within the round, in sending or random order; <= f operators silent or crashing "
        "after k broadcasts; withheld round-1 proposal or commits to force unprepared / prepared round changes, justified "
        "proposals and aggregated decided messages up to round 6. Every broadcast is validated by every peer's own real "
        "message validator (fresh per run, fed in delivery order) at a reception time at 1%, 50% or 99% of the round's window "
        "computed from the real round-timer constants. Plus the spec's honest pre-/post-consensus partial-signature messages "
        "of all roles. Monitor: no reject; in fault-free in-order runs everything is accepted. Non-trivial = the run contains "
        "a round change (round >= 2) or a decided message; distinct by op lines")
TRUSTED_BASE = [
    "monitor-only correspondence: the real instances and the real validators are run against each other; no Gallina model "
    "of message validation is executed by this check (the validation model is tied to the code by C08/C09)",
    "modelled, not verified (theorems): instance.isProposalJustification / validRoundChangeForData / highestPrepared / "
    "CreateProposal / aggregateCommitMsgs / RoundRobinProposer",
]
ASSUMPTIONS = [
    "timing assumptions as the driver implements them: lock-step rounds, all correct operators time out together",
    "the peer's duty store contains the duty (ErrNoDuty depends on the peer's own beacon data)",
    "partial-signature messages are the ones the spec's honest constructors build (the same signing functions the runners use)",
]
TECHNIQUE = ("Coq rule lemmas on the protocol model (validator's justification predicate is weaker than the instance's; leader "
             "proposals carry leader, hash and justification the validator demands; decided signers sorted) + exploration of "
             "timed multi-operator executions of the real code validated by real peer validators")
LEVEL_TEXT = ("PARTIAL. Machine-checked for all states and messages: the validator's call of IsProposalJustification (no signature "
              "check, trivial value check) accepts whatever the instance's own predicate accepts; justifications survive being "
              "marshalled without full data; the proposal a correct leader broadcasts for its current round (and the first-round "
              "proposal) is signed by that round's round-robin leader, carries data hashing to its root and passes the predicate; "
              "the node's aggregated decided message lists its signers sorted. Not proved: the composition over timed executions "
              "with the validation model, per-signer limits, round/slot windows, partial-signature rules - these are explored: real "
              "controllers against real validators in timing-respecting executions, all roles, committees 4 and 7.")
LEVEL_NOTE = ("Partial claim (DESIGN.md section 7). The predicted rule conflict P2 (ProposalData filled from any message with full data) "
              "needs a correct operator that prepared alone, which timely delivery among correct operators excludes; it is recorded as "
              "an observation outside C10's quantifier.")


def runs(tier, seed):
    k = 6 if tier == "thorough" else 1
    r = [("run4-%d" % i, ["run", "-seed", str(seed * 100 + i), "-n", str(60 * k), "-size", "4"]) for i in range(6)]
    r += [("run7-%d" % i, ["run", "-seed", str(seed * 100 + 20 + i), "-n", str(20 * k), "-size", "7"]) for i in range(6)]
    r += [("partial4", ["partial", "-seed", str(seed), "-n", "36", "-size", "4"]),
          ("partial7", ["partial", "-seed", str(seed), "-n", "18", "-size", "7"])]
    return r


def search_runs(tier, seed):
    return []


def nontrivial(case):
    return any(("type=3" in l or "signers=[" in l and " " in l.split("signers=[")[1].split("]")[0]) for l in case.lines if l.startswith("VALIDATE"))


def matches_known(finding, case):
    return False


def pre_coq(V):
    """C10's bridge lemma depends on Validation/Model.v and therefore on the regenerated validation constants."""
    from props import c08
    c08.pre_coq(V)
