"""C10 - messages produced by correct operators are never rejected by correct peers."""
ID = "C10"
COQ_TARGETS = ["Props/C10.vo"]
AREA = None
GO_CMD = "hx-c10"
VIOL_TAG = "c10"
PARALLEL = 16
NO_MINIMISE = True
RULE = ("real controllers of all operators of a committee (4 and 7) run one duty of a consensus role (attester, aggregator, "
        "proposer, sync committee, contribution) in lock-step rounds that respect the timing assumptions: every broadcast of a "
        "correct operator reaches every peer within the round, in sending or random order; <= f operators silent or crashing "
        "after k broadcasts; withheld round-1 proposal or commits to force unprepared / prepared round changes, justified "
        "proposals and aggregated decided messages up to round 6. Every broadcast is validated by every peer's own real "
        "message validator (fresh per run, fed in delivery order) at a reception time at 1%, 50% or 99% of the round's window "
        "computed from the real round-timer constants. Plus the spec's honest pre-/post-consensus partial-signature messages "
        "of all roles. Monitor: no reject; in fault-free in-order runs everything is accepted. Non-trivial = the run contains "
        "a round change (round >= 2) or a decided message; distinct by op lines")
TRUSTED_BASE = [
    "hx-c10 is a monitor-only run: the real instances and the real validators are run against each other (no model replays it)",
    "the composition theorem C10_fault_free_round_is_accepted is about two models: the validation model, tied to the real "
    "validator by hx-val + Validation/Extract.v (run here as well: EXTRA_RUNS val-hist / val-table, every observation diffed; "
    "also C08/C09), and the protocol model, tied to the real instance by hx-qbft (C01/C06/C07); the mapping between them "
    "(Qbft/HonestGate.v gate_msg: type, height, round, signers, data-present, data-hashes-to-root, justification lengths) is the "
    "abstraction harness/cmd/hx-val/abstract.go computes from real bytes - inspected, not machine-checked",
    "modelled, not verified (theorems): instance.isProposalJustification / validRoundChangeForData / highestPrepared / "
    "CreateProposal / aggregateCommitMsgs / RoundRobinProposer; validateConsensusMessage and what it calls (Validation/Model.v)",
]
ASSUMPTIONS = [
    "timing assumptions as the driver implements them: lock-step rounds, all correct operators time out together",
    "the peer's duty store contains the duty (ErrNoDuty depends on the peer's own beacon data)",
    "partial-signature messages are the ones the spec's honest constructors build (the same signing functions the runners use)",
]
TECHNIQUE = ("Coq proof that the validation model accepts, in any arrival order and at any instant of the duty's slot, every "
             "message the protocol model's correct operators broadcast in the fault-free first round (all committees, quorums, "
             "heights, leaders, consensus roles) + rule lemmas for later rounds + differential correspondence of the validation "
             "model against the real validator + exploration of timed multi-operator executions of the real code validated by "
             "real peer validators")
LEVEL_TEXT = ("PARTIAL. Machine-checked: (a) the second sentence of the property for the consensus messages of three rounds of the "
              "protocol model - the fault-free first round, round 2 of the recovery from a silent first round, round 2 of the recovery "
              "from a prepared first round (C07's theorems; C10_*_broadcasts: the messages are what the operators broadcast), and the first "
              "round together with the aggregated decided message (C10_fault_free_round_with_decided_is_accepted): wrapped as "
              "a peer receives them and run through the validation model's entry point from a validator in which every signer has no "
              "state or a state of an earlier round of the duty, every result is Accept - for every committee of distinct non-zero ids, "
              "quorum, height, leader, consensus role, both entry points, ANY arrival order, each message at most once, each validated at "
              "any instant of the duty's slot (C10_own_slot_is_inside_the_windows: slot window and round window incl. uint64 / Duration "
              "arithmetic); the proof is an invariant over the per-signer state, the only coupling between messages; "
              "(b) for all states and messages: the validator's call of IsProposalJustification accepts whatever the instance's own "
              "predicate accepts; justifications survive being marshalled without full data; the proposal a correct leader broadcasts "
              "for its current round is signed by that round's round-robin leader (both transcriptions of RoundRobinProposer agree on "
              "all uint64 inputs), carries data hashing to its root and passes the predicate; aggregated decided messages list their "
              "signers sorted. Not proved: rounds above 2, decided aggregates, whole timed executions, partial-signature messages, "
              "delivery at other offsets of the window - these are explored: real controllers against real validators in "
              "timing-respecting executions, all roles, committees 4 and 7.")
LEVEL_NOTE = ("Partial claim (DESIGN.md section 7). The predicted rule conflict P2 (ProposalData filled from any message with full data) "
              "needs a correct operator that prepared alone, which timely delivery among correct operators excludes; it is recorded as "
              "an observation outside C10's quantifier.")


def runs(tier, seed):
    k = 6 if tier == "thorough" else 1
    r = [("run4-%d" % i, ["run", "-seed", str(seed * 100 + i), "-n", str(60 * k), "-size", "4"]) for i in range(6)]
    r += [("run7-%d" % i, ["run", "-seed", str(seed * 100 + 20 + i), "-n", str(20 * k), "-size", "7"]) for i in range(6)]
    r += [("partial4", ["partial", "-seed", str(seed), "-n", "36", "-size", "4"]),
          ("partial7", ["partial", "-seed", str(seed), "-n", "18", "-size", "7"])]
    return r


def EXTRA_RUNS(tier, seed):
    """C10_fault_free_round_is_accepted is a theorem about the VALIDATION model: its tie to the real validator
    (hx-val + Validation/Extract.v, honest multi-duty histories and the mutation table) is run here too.
    gate-duties: the real proposer duty handler; the duty store it fills is the one the message validator looks proposer
    duties up in (a miss is ErrNoDuty, a reject): while a proposer duty runs the store must hold it (monitor lines `c10gate`)."""
    n = "300" if tier == "thorough" else "40"
    g = "4000" if tier == "thorough" else "700"
    return [("hx-duties", "scheduler", "Scheduler/Extract.v", "gate-duties", ["gen", "-seed", str(seed + 30), "-n", g, "-kind", "P"], "c10gate"),
            ("hx-val", "validation", "Validation/Extract.v", "val-hist", ["validate", "-stream", "hist", "-seed", str(seed + 10), "-n", n, "-prop", "C09"]),
            ("hx-val", "validation", "Validation/Extract.v", "val-table", ["validate", "-stream", "table", "-seed", str(seed + 10), "-prop", "C09"])]


def search_runs(tier, seed):
    return []


def nontrivial(case):
    return any(("type=3" in l or "signers=[" in l and " " in l.split("signers=[")[1].split("]")[0]) for l in case.lines if l.startswith("VALIDATE"))


def matches_known(finding, case):
    return False


def pre_coq(V):
    """C10's bridge lemma depends on Validation/Model.v and therefore on the regenerated validation constants."""
    from props import c08
    c08.pre_coq(V)
