"""C18 - publisher, subscriber and validator agree on topic and envelope for every key."""
import os

ID = "C18"
COQ_TARGETS = ["Props/C18.vo"]
AREA = "topics"
EXTRACT_V = "Topics/Extract.v"
GO_CMD = "hx-topics"
RULE = ("one case = one validator key through every topic call site (commons functions, real "
        "p2pNetwork Broadcast/Subscribe/Peers/Unsubscribe in front of a recording topics controller, real "
        "message validator on what Broadcast published) followed by two validator checks on other topics; "
        "or one envelope wrap/unwrap plus one decode of arbitrary bytes; or one subnet vector through "
        "String/FromString plus one arbitrary string through FromString; or arbitrary strings through "
        "ValidatorSubnet / GetTopicBaseName / the validator's topic check.  non-trivial = a key case in "
        "which the validator accepted the published topic AND refused another one; an envelope case with "
        "a non-empty payload and a 256-byte signature; a subnet case with at least one subnet set; a "
        "string case in which a non-hex or over-long string reached ValidatorSubnet.  distinct by op lines")
TRUSTED_BASE = [
    "modelled, not verified: network/commons/common.go (ValidatorSubnet, SubnetTopicID, ValidatorTopicID, "
    "GetTopicFullName, GetTopicBaseName, Topics, Encode/DecodeSignedSSVMessage), network/records/subnets.go "
    "(Subnets.String, FromString, getCharMask), the topic choice in network/p2p/p2p_pubsub.go and the topic "
    "check in message/validation/validation.go; strconv.ParseUint(base 16), hex.EncodeToString, "
    "strings.Replace(n=1), fmt.Sprintf(%d), go-bitfield Bitvector128.SetBitAt/Bytes are modelled by hand",
    "constants regenerated on every run by harness/cmd/gen-topics-consts (go/parser + go/constant) into "
    "coq/Gen/TopicsConsts.v: subnetsCount, UnknownSubnet, topicPrefix, signatureSize/Offset, "
    "operatorIDSize/Offset, messageOffset, go-bitfield bitvector128ByteSize, records.ZeroSubnets/AllSubnets",
    "hook network/p2p/verif_hooks.go (VerifNewWithTopicsController): a p2pNetwork in the ready state around a "
    "recording topics controller; the recorder maps base name -> wire name with commons.GetTopicFullName as "
    "network/topics/controller.go:142,159 do (two replicated lines)",
    "the validator's topic check is observed through the exported ValidatePubsubMessage with a metrics "
    "reporter (SSVMessageType is called right after the check passed, MessageRejected('topic not found') "
    "when it failed); messages carry empty Data so that validation stops right after the topic check",
    "the index UpdateSubnets advertises is the replicated line commons.ValidatorSubnet(hex(pk)) (p2p.go:255)",
]
ASSUMPTIONS = [
    "pubsub hands the validator the topic name the message was published under and exactly the published bytes",
    "RSA signing is replaced by a signer returning a chosen 256-byte string (the envelope layout, not RSA, is the subject)",
    "a fresh p2pNetwork is built per key: cornelk/hashmap v1.0.8 behind p2pNetwork.activeValidators hangs in "
    "GetOrInsert after about a hundred Subscribe/Unsubscribe cycles (side observation, see work/side-hashmap-getorinsert-del-hang.go.txt)",
    "keys that are not 48 bytes long cannot reach Broadcast or validation (the message id holds exactly 48 "
    "bytes); for them only the functions and Subscribe/Peers/Unsubscribe are exercised",
]


def pre_coq(V):
    """Regenerate coq/Gen/TopicsConsts.v from the repository under check."""
    mod = V.go_modfile()
    out = os.path.join(V.COQ, "Gen", "TopicsConsts.v")
    p = V.sh(["go", "run", "-modfile", mod, "./cmd/gen-topics-consts", V.REPO, out],
             cwd=V.HARNESS, env=V.GOENV, timeout=600, check=False)
    if p.returncode != 0:
        raise V.CheckError("C18: the constants of network/commons, network/records or go-bitfield can no longer be "
                           "read as constant expressions (coq/Gen/TopicsConsts.v not regenerated):\n" + (p.stdout or ""))


def runs(tier, seed):
    if tier == "thorough":
        r = [("edge", ["edge"])]
        r += [("keys%d" % i, ["keys", "-seed", str(seed * 1000 + i), "-n", "100000"]) for i in range(10)]
        r += [("envelope%d" % i, ["envelope", "-seed", str(seed * 1000 + i), "-n", "15000"]) for i in range(4)]
        r += [("subnets%d" % i, ["subnets", "-seed", str(seed * 1000 + i), "-n", "40000"]) for i in range(2)]
        r += [("strings%d" % i, ["strings", "-seed", str(seed * 1000 + i), "-n", "40000"]) for i in range(2)]
        return r
    return [("edge", ["edge"]),
            ("keys", ["keys", "-seed", str(seed), "-n", "20000"]),
            ("envelope", ["envelope", "-seed", str(seed), "-n", "2500"]),
            ("subnets", ["subnets", "-seed", str(seed), "-n", "3000"]),
            ("strings", ["strings", "-seed", str(seed), "-n", "3000"])]


def search_runs(tier, seed):
    r = [("edge", ["edge"])]
    r += [("keys%d" % i, ["keys", "-seed", str(seed * 7919 + i), "-n", "50000"]) for i in range(4)]
    r += [("envelope", ["envelope", "-seed", str(seed * 7919), "-n", "10000"]),
          ("subnets", ["subnets", "-seed", str(seed * 7919), "-n", "20000"]),
          ("strings", ["strings", "-seed", str(seed * 7919), "-n", "20000"])]
    return r


def nontrivial(case):
    accepted = refused = False
    for l in case.lines:
        if l.startswith("OBS key ") and " accepts=1 " in l:
            accepted = True
        elif l == "OBS accept 0":
            refused = True
        elif l.startswith("ENC "):
            w = l.split()
            if len(w) == 4 and len(w[2]) == 512 and w[3] != "-":
                return True
        elif l.startswith("TOSTR "):
            w = l.split()
            if len(w) == 2 and w[1].strip("0-") != "":
                return True
        elif l.startswith("SUBNETHEX "):
            w = l.split()
            if len(w) == 2 and len(w[1]) > 20:
                try:
                    s = bytes.fromhex(w[1]).decode("latin-1")
                except ValueError:
                    s = ""
                if len(s) != 96 or any(c not in "0123456789abcdef" for c in s[:10]):
                    return True
    return accepted and refused


def matches_known(finding, case):
    return False


TECHNIQUE = ("Coq proof over all keys, payloads, operator ids, signatures and subnet vectors of an executable model of "
             "the topic / envelope / bitmap functions + constants regenerated from source + differential correspondence "
             "against the real functions and the real publish / subscribe / validate call sites")
LEVEL_TEXT = ("Machine-checked theorems about a Gallina model of commons.ValidatorSubnet/SubnetTopicID/ValidatorTopicID/"
              "GetTopicFullName/GetTopicBaseName/Topics, Encode/DecodeSignedSSVMessage and records.Subnets String/FromString, "
              "for ALL inputs: for every key of >= 5 bytes Broadcast, Subscribe, Unsubscribe and Peers use the same single "
              "topic, the decimal name of (first five key bytes, big endian) mod subnetsCount; the validator's check accepts a "
              "wire name iff it is that topic's; the subnet is below the subnet count, its wire name is in Topics(), it is the "
              "advertised index and that index survives the bitmap's string encoding; shorter keys map everybody to 'unknown'; "
              "base(full x) = x, decimal rendering is injective; unwrap(wrap(m, id, sig)) = (m, id, sig) for 256-byte "
              "signatures and ids < 2^64, wrap is injective, unwrap refuses exactly inputs shorter than the header and never "
              "reads out of bounds; a 128-entry vector survives String/FromString up to 'non-zero -> 1'.  The constants the "
              "theorems depend on are regenerated from the Go source on every run, so e.g. overlapping envelope offsets or a "
              "subnet count different from the bitmap size break a Qed.  The model is tied to the code by running both on the "
              "same keys / payloads / vectors / malformed strings and diffing every observation.")
LEVEL_NOTE = ("Trusted: Coq kernel + vm_compute, extraction (ExtrOcamlBasic), the OCaml/Go drivers, the hand models of the Go "
              "library functions named in the trusted base, the recording topics controller.  The three call sites all call "
              "commons.ValidatorTopicID today, so their agreement is by construction in the model; the correspondence runs and "
              "the monitor are what notice a call site that stops doing so.")
