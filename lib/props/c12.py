"""C12 - block event processing is atomic and exactly-once across crashes."""
from props.registry_common import AREA, EXTRACT_V, GO_CMD, pre_coq, dup_opid_in_block, TRUSTED_BASE  # noqa: F401

ID = "C12"
COQ_TARGETS = ["Props/C12.vo"]
RULE = ("base histories of 3-5 blocks x every write call k of every block's processing (transaction writes, key-manager "
        "and decided-store writes, the commit) as a kill or an injected failure, followed by restart and resumption from "
        "the recorded marker + 1; non-trivial = the node died strictly inside the block (OBS crash 0) in a history that "
        "registers a validator; distinct by op lines")
ASSUMPTIONS = [
    "badger transactions are atomic and durable on commit, discarded otherwise (the check injects faults at the basedb API)",
    "a failed storage / key-manager call ends the process (every such error is non-malformed, propagates to "
    "HandleBlockEventsStream, whose callers log.Fatal); the model treats it as a crash at that point",
    "the beacon clock does not move during a history (slashing records are compared by presence)",
    "uuid.New() never repeats (account object ids)",
    "'the same stored key shares' = the same set of key shares the reopened wallet can sign with; the raw wallet storage may "
    "keep an orphaned account object / a stale index entry / a stale slashing record (reported as residue notes)",
]
RUN_TIMEOUT = 1200


def runs(tier, seed):
    if tier == "thorough":
        return [("scripted", ["scripted"])] + \
               [("crash%d" % i, ["crash", "-seed", str(seed * 1000 + i), "-n", "60"]) for i in range(14)] + \
               [("gen%d" % i, ["gen", "-seed", str(seed * 1000 + 50 + i), "-n", "300"]) for i in range(2)] + \
               [("stores", ["stores"])]
    return [("scripted", ["scripted"])] + \
           [("crash%d" % i, ["crash", "-seed", str(seed * 100 + i), "-n", "4"]) for i in range(4)] + \
           [("gen0", ["gen", "-seed", str(seed * 100 + 50), "-n", "40"]),   # restarts and stale blocks (with and without logs)
            ("stores", ["stores"])]   # one decided store per role, every storage call of a removal failing once: monitor only


NO_MODEL_RUNS = ("stores",)


# "A block that is not newer than the last processed block is refused" and "processing resumes after the last
# processed block" are statements about two observations of the driver: the result of handing over a block and the
# persisted marker.  The model refuses stale blocks for every history (C12_inferior_block_refused), so a history on
# which the real handler's result or marker differs from the model's is one on which the clause fails.
def divergence_violation(case, d):
    _, impl, model = d
    if model.startswith("OBS res inferior") and impl.startswith("OBS res ") and not impl.startswith("OBS res inferior"):
        return "a block that is not newer than the last processed block was not refused: `%s` (the rules: `%s`)" % (impl[4:], model[4:])
    if impl.startswith("OBS last ") and model.startswith("OBS last ") and impl != model:
        return "the last-processed-block marker is `%s`, the rules prescribe `%s`" % (impl[4:], model[4:])
    return None


def search_runs(tier, seed):
    return [("crash%d" % i, ["crash", "-seed", str(seed * 7919 + i), "-n", "20"]) for i in range(4)]


def nontrivial(case):
    return any(l == "OBS crash 0" for l in case.lines) and any(l.startswith("OBS sh ") for l in case.lines)


def matches_known(finding, case):
    return False


TECHNIQUE = ("Coq proof over all blocks and all crash points of a micro-step model of block processing + exhaustive "
             "per-block fault injection (kill / fail at every write call) against the real handler, storage and key manager")
LEVEL_TEXT = ("Machine-checked theorems about the micro-step model of processBlockEvents (every transaction write, every "
              "key-manager / decided-store write outside the transaction, the commit): for every reachable state, block and "
              "crash point k, restart + resume from the marker reaches the state of the uninterrupted run (database, in-memory "
              "view, usable key shares, decided store), a block not newer than the marker is refused without effect. The model "
              "is tied to the code by killing / failing the real node at every write call of every block of generated "
              "histories, restarting it on the surviving database and diffing every observation, including the number of "
              "write calls per block.")
LEVEL_NOTE = ("Badger's own crash behaviour is an assumption (faults are injected at the basedb API). The statement is about "
              "registry state, nonces and the stored key shares USABLE FOR SIGNING (wallet index entry whose account object "
              "loads): that, the decided store and coverage (every usable share keeps its slashing records) are proved and "
              "checked. The raw wallet storage is not claimed equal: a crash between SaveAccount and SaveWallet leaves an "
              "orphaned account object, one between DeleteAccount and SaveWallet a stale index entry, one after RemoveShare and "
              "before the commit of a block [ClusterReactivated; ValidatorRemoved] a stale slashing record "
              "(C12_slashing_records_not_reproduced_refuted); these are counted as residue_* in the evidence distribution.")
