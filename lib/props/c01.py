"""C01 - consensus agreement: honest operators never decide different values."""
import re

ID = "C01"
COQ_TARGETS = ["Props/C01.vo"]
AREA = "qbft"
EXTRACT_V = "Qbft/Extract.v"
GO_CMD = "hx-qbft"
VIOL_TAG = "c01"
PARALLEL = 16
NO_MINIMISE = True
RULE = ("controller-level network runs of 4 and 7 real operators (real controllers, instances, BLS keys, compaction where "
        "the runner compacts) with 0..f Byzantine operators that forge correctly signed equivocating proposals, prepares, "
        "commits, prepared and unprepared round changes with justifications taken from the air, decided-shaped aggregates, "
        "field mutations; scripted attacks played to the end (equivocating leader with full Byzantine support, fabricated "
        "round-change justification after a lone decision, early proposal by the previous leader); adversarial scheduler (out-of-order delivery, drops, replays, timeouts, selective delivery). The "
        "monitor compares the decisions reported by all correct operators of a run (and by one operator over time). Plus the "
        "scripted history of finding F6. One case = the input history of one operator; the agreement verdict of a run is "
        "attached to its first operator's case. Non-trivial = history reaches round >= 2 or contains a reported decision; "
        "distinct by op lines")
TRUSTED_BASE = [
    "modelled, not verified: protocol/v2/qbft/instance/*.go, controller.ProcessMsg/UponDecided/ValidateDecided for one height, "
    "BaseRunner.compactInstanceIfNeeded, ssv-spec MsgContainer / HasQuorum / RoundRobinProposer / message Validate functions",
    "ideal signatures: a part of a message whose signature verifies has committee signers, and every honest signer has itself "
    "broadcast a message with the same (type, height, round, root, data round); SHA-256 modelled as an injective function",
    "one height: instances of other heights are independent (every validity check compares the height; signatures cover it)",
]
ASSUMPTIONS = [
    "BLS unforgeability and soundness of aggregate verification (the admissibility relation of Qbft/System.v)",
    "config.VerifySignatures() = true (production setting)",
    "every correct operator starts its instance before processing messages for it (controller.StartNewInstance does)",
    "committee of 3f+1 distinct operators with f >= 1 and quorum 2f+1 (sizes 4, 7, 10, 13)",
]
TECHNIQUE = ("Coq proof of agreement for the whole committee by invariants over all executions (quorum intersection, one prepare per "
             "round, prepared-value lock via justified round changes), generic in f; refutation witness for the unrestricted "
             "statement; differential check of real controllers against the extracted model in adversarial network runs")
LEVEL_TEXT = ("Machine-checked, for EVERY committee size 3f+1 (f>=1), every start-value assignment, every interleaving of deliveries, "
              "drops, duplicates and timeouts and every behaviour of <= f Byzantine operators within the message grammar: in every "
              "execution of the model of instance + controller + runner compaction in which no decided message moves the round of an "
              "undecided instance backwards, all decisions reported by correct operators carry the same value "
              "(C01_agreement_outside_F6, closed under the global context). The unrestricted statement is refuted on the model by a "
              "concrete 4-operator execution (C01_refuted) that replays on the real controllers (finding F6, KNOWN-FINDING). The model "
              "is tied to the code by running real controllers and the extracted model on the same adversarial network histories and "
              "comparing every result, broadcast, timer and state projection.")
LEVEL_NOTE = ("Known finding F6: UponDecided rewinds State.Round of an operator that had timed out; the runner's compaction has "
              "cleared the proposal container; the Byzantine leader's second round-1 proposal is accepted and a second value is "
              "decided. Signature = a backward rewind occurred before the disagreement (exactly the hypothesis the theorem adds). "
              "A disagreement in a run without a backward rewind is a VIOLATION.")


def runs(tier, seed):
    k = 5 if tier == "thorough" else 1
    r = [("f6", ["f6"])]
    r += [("ctrl4b1-%d" % i, ["net", "-level", "ctrl", "-byz", "1", "-seed", str(seed * 100 + i), "-n", str(14 * k), "-size", "4"]) for i in range(8)]
    r += [("ctrl4-%d" % i, ["net", "-level", "ctrl", "-seed", str(seed * 100 + 20 + i), "-n", str(10 * k), "-size", "4"]) for i in range(3)]
    r += [("ctrl7-%d" % i, ["net", "-level", "ctrl", "-byz", "2", "-seed", str(seed * 100 + 40 + i), "-n", str(3 * k), "-size", "7"]) for i in range(4)]
    r += [("attack-%d" % i, ["attack", "-seed", str(seed * 100 + 60 + i), "-n", str(16 * k)]) for i in range(3)]
    # partial publish failures (the commit goes out, the call reports an error): the model has no failing publish,
    # these runs are checked by the agreement monitor only
    r += [("puberr-0", ["attack", "-only", "publish-error", "-seed", str(seed * 100 + 80), "-n", str(30 * k)])]
    return r


NO_MODEL_RUNS = ("puberr",)


def search_runs(tier, seed):
    return [("sa%d" % i, ["attack", "-seed", str(seed * 977 + i), "-n", "80"]) for i in range(4)] + [("s%d" % i, ["net", "-level", "ctrl", "-byz", "1", "-seed", str(seed * 971 + i), "-n", "60", "-size", "4"]) for i in range(8)]


def nontrivial(case):
    m = re.search(r"maxround=(\d+)", case.header)
    if m and int(m.group(1)) >= 2:
        return True
    return any(l.startswith("OBS cmsg decided") for l in case.lines)


def matches_known(finding, case):
    """F6: the disagreement was preceded by a backward rewind of an undecided instance."""
    if finding.get("id") != "F6":
        return False
    ok = False
    for v in case.viol:
        m = re.search(r"backward-rewind-at=\[([0-9 ]*)\]", v)
        if not m or not m.group(1).strip():
            return False
        ok = True
    return ok
