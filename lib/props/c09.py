"""C09 - message validation never accepts a message that breaks a gossip rule."""
from props import c08 as _c08

ID = "C09"
COQ_TARGETS = ["Props/C09.vo"]
AREA = _c08.AREA
EXTRACT_V = _c08.EXTRACT_V
GO_CMD = _c08.GO_CMD
NO_MODEL_RUNS = ("race",)
PARALLEL = 8
pre_coq = _c08.pre_coq
RULE = ("honest messages built with the spec's testing key sets (proposal round 1, justified proposals of round 2 "
        "with and without prepared value, prepare, commit, round change plain and prepared, decided with q and n "
        "signers, pre- and post-consensus partial signatures) for all roles, committees 4/7/10/13 and sparse ids, "
        "signed and unsigned era, p2p and direct entry; each with every single rule-breaking mutation of the table "
        "(~85), after honest prefixes of 0..11 accepted messages of the previous slot; histories with replays, second "
        "proposals with other data, lower rounds, decided floods, duty-count overruns; concurrent validation; "
        "non-trivial = a mutated message that is not accepted while its un-mutated twin IS accepted in the same "
        "state, or a history / race case; distinct by op lines")
TRUSTED_BASE = _c08.TRUSTED_BASE + [
    "the C09 monitor (harness/cmd/hx-val/monitor.go): the rules evaluated with math/big, crypto/rsa, crypto/sha256 "
    "on the concrete message and its own bookkeeping of accepted messages; its windows are the documented constants",
]
ASSUMPTIONS = [
    "committees have at most 13 members; slot duration and slots per epoch positive",
    "wf_time for the window theorems: genesis < 2^61 s, slot duration < 2^20 s, local clock in [0, 2^61) s",
    "the operator registry and the share registry do not change during a history",
    "SHA-256 collision freeness (full data is named by an injective table), RSA signature correctness: both are "
    "oracle bits computed by the real code / the standard library",
    "BLS signatures are not checked by message validation at all (by design of the code); nothing is claimed about them",
    "the per-message-id mutex serialises validations (race mode stress only); the theorems are about sequential "
    "histories per id, independence of ids is the frame theorem",
    "reading (a)/(b) of DESIGN.md: windows for consensus messages only (the code has no slot window for partial "
    "signature messages - reported as OBSERVATION lines), full data for proposal / round change / decided only",
]


def runs(tier, seed):
    P = ["-prop", ID]
    if tier == "thorough":
        r = [("table", ["validate", "-stream", "table", "-seed", str(seed)] + P)]
        r += [("mut%d" % i, ["validate", "-stream", "mut", "-seed", str(seed * 100 + 50 + i), "-n", "2500"] + P) for i in range(6)]
        r += [("adv%d" % i, ["validate", "-stream", "adv", "-seed", str(seed * 100 + 50 + i), "-n", "2000"] + P) for i in range(2)]
        r += [("hist%d" % i, ["validate", "-stream", "hist", "-seed", str(seed * 100 + 50 + i), "-n", "500"] + P) for i in range(5)]
        r += [("race", ["race", "-seed", str(seed + 50), "-n", "300"] + P)]
        return r
    return [("table", ["validate", "-stream", "table", "-seed", str(seed + 50)] + P),
            ("mut", ["validate", "-stream", "mut", "-seed", str(seed + 50), "-n", "500"] + P),
            ("adv", ["validate", "-stream", "adv", "-seed", str(seed + 50), "-n", "300"] + P),
            ("hist", ["validate", "-stream", "hist", "-seed", str(seed + 50), "-n", "80"] + P),
            ("hist2", ["validate", "-stream", "hist", "-seed", str(seed + 150), "-n", "80"] + P),
            ("race", ["race", "-seed", str(seed + 50), "-n", "15"] + P)]


def search_runs(tier, seed):
    P = ["-prop", ID]
    return [("mut", ["validate", "-stream", "mut", "-seed", str(seed * 7919 + 3), "-n", "2000"] + P),
            ("hist", ["validate", "-stream", "hist", "-seed", str(seed * 7919 + 4), "-n", "150"] + P),
            ("adv", ["validate", "-stream", "adv", "-seed", str(seed * 7919 + 5), "-n", "2000"] + P)]


def nontrivial(case):
    h = case.header
    if " hist " in h or " race" in h or "corpus" in h:
        return True
    if "mut=" not in h or "mut=none" in h:
        return False
    # mutated message (before the "# twin" note) not accepted, twin (after it) accepted
    verdicts, twin_at = [], None
    for l in case.lines:
        if l.startswith("# twin"):
            twin_at = len(verdicts)
        elif l.startswith("OBS ") and not l.startswith("OBS st "):
            verdicts.append(l)
    if twin_at is None or twin_at == 0 or twin_at >= len(verdicts):
        return False
    return verdicts[twin_at].startswith("OBS accept") and not verdicts[twin_at - 1].startswith("OBS accept")


def matches_known(finding, case):
    return False


TECHNIQUE = ("Coq proof that Accept implies the conjunction of the gossip rules (incl. slot/round windows through a model "
             "of Go's wrapping and saturating time arithmetic) and that the per-signer limits hold on the accepted "
             "messages of every history + frame theorem + differential correspondence against the real validator on "
             "honest messages x a table of single mutations x prefixes, with an independent rule monitor")
LEVEL_TEXT = ("Machine-checked theorems about an executable model that follows validateP2PMessage / validateSSVMessage / "
              "validateConsensusMessage / validatePartialSignatureMessage statement by statement: (1) Accept implies: "
              "known active non-liquidated validator, own domain, validator's topic, (once active) registered "
              "operator's RSA signature over exactly the payload, signers sorted/distinct/non-zero/committee members, "
              "one signer unless quorum-sized commit, proposal from committee[(height+round-1) mod n], attached full "
              "data hashing to the root, slot window and round window of the role stated in unbounded integers - the "
              "model computes them with uint64 wrap-around, int64 reinterpretation and time.Time/Duration saturation "
              "exactly as Go does, and the proof shows the guard added by the F8 repair makes the wrap unreachable; "
              "(2) over all histories from a fresh validator the accepted consensus messages of each (id, signer) are "
              "non-decreasing in (slot, round), at most limit-many per (slot, round, kind) and contain no second "
              "proposal per round; (3) frame: ids are independent; (4) every error's reject/ignore class and every "
              "window constant is pinned against tables regenerated from errors.go / validation.go / roundtimer on "
              "each run. The model is tied to the code by diffing verdict, error and the whole signer state after "
              "every validation. Proof is the right level: the property quantifies over the product of rules, types, "
              "roles and prior signer state; F8 (height = slot + 2^62 accepted) needed one value in 2^64.")
LEVEL_NOTE = ("Partial for concurrency: the per-id mutex is assumed to serialise (race-mode stress, monitor only). Trusted: "
              "Coq kernel + vm_compute, extraction, OCaml/Go drivers, the abstraction (oracle bits for decoders, SHA-256, "
              "RSA, justification check, duty store), the re-statement of Go's time package. Observations printed in the "
              "evidence, not alarms: partial signature messages have no slot window in the code (a partial signature "
              "message for slot 2^64-1 is accepted and advances the signer's slot); the consensus message's Identifier "
              "field is not compared with the message id; BLS signatures are not verified by validation.")
