"""C05 - only validly threshold-signed duty objects reach the beacon node, once."""
import re

from props import runner_common

ID = "C05"
COQ_TARGETS = ["Gen/RunnerConsts.vo", "Props/C05.vo"]
AREA = "runner"
EXTRACT_V = "Runner/Extract.v"
GO_CMD = "hx-runner"
RUN_TIMEOUT = 1500
PARALLEL = 10
RULE = ("partial-signature histories delivered to real runners in the decided state (5 consensus roles incl. "
        "capella/deneb/blinded proposals, + voluntary exit and validator registration): n=4 every arrival order "
        "x 18 fault kinds x faulty sender, n=4/7/10/13 random orders with <= f faulty senders, unrestricted traffic; "
        "non-trivial = the case contains at least one message that is not a plain correct one (wrong share, "
        "wrong root/slot/signer, duplicate, replacement, refused beacon call) ; distinct by op lines")
TRUSTED_BASE = [
    "modelled, not verified: protocol/v2/ssv/runner/{runner.go basePartialSigMsgProcessing, runner_validations.go, "
    "runner_signatures.go, the ProcessPostConsensus bodies of attester/proposer/aggregator/sync_committee/"
    "sync_committee_aggregator, the ProcessPreConsensus bodies of voluntary_exit/validator_registration}, "
    "protocol/v2/types/crypto.go ReconstructSignature, ssv-spec v0.3.7 ssv.PartialSigContainer and "
    "SignedPartialSignatureMessage.Validate",
    "driver: runners are put into the decided state the way the spec tests' decideRunner does (no hook needed); "
    "recording beacon node computes the signing root of every submitted object itself and verifies the "
    "signature with real BLS under the validator key; shares are classified by the real share verifier",
]
ASSUMPTIONS = [
    "idealised threshold BLS: a reconstruction over a set S of stored shares verifies under the validator key iff "
    "|S| >= t and every share in S is the signer's correct share; a share verifies individually iff it is correct; "
    "t = Share.Quorum (true for the spec key sets 4/7/10/13)",
    "SHA-256 / SSZ hash-tree-root collision freeness: distinct decided objects have distinct signing roots "
    "(hypothesis NoDup (expected g) of C05_at_most_once)",
    "liveness is stated for a beacon node that accepts the submission (bn_always_ok); a refused submission is not retried by the code",
    "the outer operator signature of a partial-signature message is checked by message validation (C09), not by the runner: "
    "the model lets anybody send under any signer id, the theorems hold nevertheless",
    "one message is processed at a time (the validator's queue consumer is single-threaded per duty runner)",
]

_FAST = ["att", "scc"]
_REST = ["prop", "propc", "propb", "agg", "sc", "vexit", "vreg"]


def pre_coq(V):
    """coq/Gen/RunnerConsts.v: which variant of two repaired code paths the tree contains."""
    runner_common.pre_coq(V)


def runs(tier, seed):
    if tier == "thorough":
        r = [("exh-" + x, ["post-exh", "-roles", x]) for x in _FAST + _REST]
        r += [("rnd%d" % i, ["post-rnd", "-seed", str(seed * 1000 + i), "-n", "3000"]) for i in range(8)]
        r += [("free%d" % i, ["post-free", "-seed", str(seed * 1000 + i), "-n", "2000"]) for i in range(6)]
        return r
    return [("exh-scc-a", ["post-exh", "-roles", "scc", "-part", "0", "-parts", "3"]),
            ("exh-scc-b", ["post-exh", "-roles", "scc", "-part", "1", "-parts", "3"]),
            ("exh-scc-c", ["post-exh", "-roles", "scc", "-part", "2", "-parts", "3"]),
            ("exh-att", ["post-exh", "-roles", "att"]),
            ("exh-prop", ["post-exh", "-roles", "prop"]),
            ("exh-vexit", ["post-exh", "-roles", "vexit"]),
            ("rnd", ["post-rnd", "-seed", str(seed), "-n", "600"]),
            ("rnd2", ["post-rnd", "-seed", str(seed + 7919), "-n", "500", "-roles", "propc,propb,agg,sc,vreg,scc"]),
            ("free", ["post-free", "-seed", str(seed), "-n", "500"])]


def search_runs(tier, seed):
    return [("free%d" % i, ["post-free", "-seed", str(seed * 7919 + i), "-n", "3000"]) for i in range(4)] + \
           [("exh-" + x, ["post-exh", "-roles", x]) for x in _FAST + _REST]


def nontrivial(case):
    for l in case.lines:
        if l.startswith("POST ") and re.search(r" b\d+( |$)", l):
            return True
        if l.startswith("OBS post ") and not l.startswith("OBS post ok"):
            return True
    return False


_OBS = re.compile(r"^OBS post (\S+) subs=(\S+) fin=(\d) cont=(\S+)$")


def matches_known(finding, case):
    """Signature of the multi-root liveness defect (DESIGN 5.2 P3), and nothing else: a duty with >= 2
    roots, the only complaint is a missing submission, and the history shows one of the two shapes
    (A) a failed reconstruction after which another root is still at quorum - its one-time quorum edge
        is consumed without a submission, or
    (B) Finished set while fewer objects than roots have been submitted."""
    if finding.get("id") != "P3":
        return False
    new = [l.split() for l in case.lines if l.startswith("NEW ")]
    if len(new) != 1:
        return False
    q, nroots = int(new[0][2]), int(new[0][4])
    if nroots < 2 or not case.viol:
        return False
    if not all(v.startswith("no submission of decided object") for v in case.viol):
        return False
    submitted, shape = set(), False
    for l in case.lines:
        m = _OBS.match(l)
        if not m:
            continue
        cls, subs, fin, cont = m.groups()
        if subs != "-":
            for s in subs.split(","):
                submitted.add(s.split(":")[0])
        roots = [[] if r == "-" else r.split(",") for r in cont.split("|")]
        if cls == "badquorum" and any(len(r) >= q for r in roots):
            shape = True
        if fin == "1" and len(submitted) < nroots:
            shape = True
    return shape


TECHNIQUE = ("Coq proof over all partial-signature histories of an executable model of the signature-collection phase "
             "+ differential correspondence (exhaustive orders x fault kinds x faulty sender for n=4, random for "
             "n=4/7/10/13) against the real runners with real BLS threshold shares")
LEVEL_TEXT = ("Machine-checked theorems about a Gallina model of the partial-signature phase of the duty runners "
              "(validation, container with resolveDuplicateSignature, quorum edge, reconstruct / verify / fallback "
              "eviction / submit / Finished): every submission carries a verifying signature over an expected root "
              "(all histories); at most one submission per decided object (all histories); for single-root duties a "
              "submission has happened as soon as the correct shares of a quorum of distinct committee members have "
              "arrived, in any order among any other traffic (generic in committee and quorum, with the n=3f+1/q=2f+1 "
              "corollary; 4/7/10/13 as evaluated examples); for the multi-root sync-committee-contribution duty the "
              "liveness clause is refuted for the loop as it is in the tree (vm_compute witness, reproduces on the real "
              "SyncCommitteeAggregatorRunner: known finding P3) and proved for the repaired loop "
              "(C05_multi_root_liveness_repaired); which of the two loops is extracted and compared is read from the "
              "source on every run (coq/Gen/RunnerConsts.v). The model is tied to the code by running both on "
              "the same histories and diffing error class, submissions, Finished and the full container after every message.")
LEVEL_NOTE = ("Trusted: Coq kernel + vm_compute, extraction, OCaml/Go drivers, the abstraction share -> Good | Bad k "
              "(taken from the real verifier), the idealised threshold-crypto assumption. The runner is modelled from "
              "the decided state on; how it gets there is C03's model. Multi-root liveness is NOT claimed for the unchanged tree "
              "(refuted, finding P3); it is claimed once work/fix-C05-P3.diff (or an equivalent repair recognised by "
              "lib/props/runner_common.py) is in the tree.")
