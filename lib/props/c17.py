"""C17 - round timeouts fire once per armed round, never early, never for stale rounds."""
import os

ID = "C17"
COQ_TARGETS = ["Props/C17.vo"]
AREA = "timer"
EXTRACT_V = "Timer/Extract.v"
GO_CMD = "hx-timer"
PARALLEL = 4   # the live runs measure real time; do not start everything at once
RULE = ("four kinds of cases.  deadlines: RoundTimeout of the real RoundTimer for one (role, option set, slot "
        "duration, slot offset) over heights {0,1,7,1000} x rounds 0..24,100,1000,100000 - deterministic, compared "
        "value for value.  live: the real RoundTimer (hook: quick/slow scaled to 10-20 ms / 60-100 ms, fake beacon) "
        "armed 2-5 times for strictly increasing rounds, each re-arming after the callback, before expiry or around "
        "the deadline, sometimes with the parent context cancelled; what is compared with the model is which "
        "callbacks are legal given the recorded order and times (fired / suppressed / not due / none pending), what "
        "the monitor asserts is safety only (never early, never twice, never after a later TimeoutForRound "
        "returned).  race: the interleaving check-Round() / TimeoutForRound / callback forced through the callback "
        "mutex.  controller: 6-20 start / decided / timeout events on the real controller.  non-trivial = a "
        "deadlines case; a live or race case with >= 2 armings and >= 1 callback; a controller case with both a "
        "timeout that bumped the round and one that changed nothing.  distinct by all lines of the case")
TRUSTED_BASE = [
    "modelled, not verified: protocol/v2/qbft/roundtimer/timer.go (RoundTimeout, TimeoutForRound, waitForRound), "
    "protocol/v2/qbft/controller/timer.go (OnTimeout), instance/timeout.go (UponRoundTimeout: bump, broadcast, re-arm), "
    "controller.StartNewInstance/forceStopAllInstanceExceptCurrent and UponDecided as far as they change what OnTimeout "
    "looks at; protocol/v2/ssv/validator/timer.go (the callback that turns an expiry into a queued EventMsg) and "
    "protocol/v2/ssv/runner/timer.go (installs it) are read, not driven: the driver builds the same EventMsg/TimeoutData",
    "constants regenerated on every run by harness/cmd/gen-timer-consts into coq/Gen/TimerConsts.v: "
    "QuickTimeoutThreshold, QuickTimeout, SlowTimeout (ns), instance.CutoffRound",
    "hook protocol/v2/qbft/roundtimer/verif_hooks.go: VerifSetTimeoutOptions / VerifTimeoutOptions (the hook the "
    "property asks for) and VerifCallbackMutex (makes the check/callback interleaving reproducible)",
    "the driver's event log: sequence numbers from one atomic counter taken before/after TimeoutForRound and at the "
    "entry of the callback, Round() read inside the callback, monotonic times; a callback that saw a later round is "
    "written as WAKE (before the re-arming) + CALL (after it) for the model",
    "deadlines are read off RoundTimeout through a (t0,t1) bracket narrower than 1 ms, all inputs being multiples of 1 ms",
]
ASSUMPTIONS = [
    "time.Timer never fires early (model: delivering an expiry before max(arming time, deadline) does nothing)",
    "the clock read by successive steps does not go back (hypothesis [mono] of the never-early theorem)",
    "integer arithmetic does not overflow: round * slow < 2^63 ns (instances stop at CutoffRound = 15)",
    "real time: only safety is asserted; 'the latest armed round eventually fires' is counted in the distribution "
    "(latest-armed-round-fired / -did-not-fire-in-time), because a slow machine only delays callbacks",
    "real-time outcomes are not deterministic, so the model is not asked to predict them: it follows the recorded "
    "order of armings and callbacks and says whether each callback was legal at that point; RoundTimeout values and "
    "the controller's reactions are deterministic and compared exactly",
    "cancellation of the parent context: goroutines leave through ctx.Done, but Go's select may still take a ready "
    "timer branch, so after a cancellation deliveries may stop at any point and nothing more is claimed",
    "rounds of successive TimeoutForRound calls strictly increase (the property's hypothesis; at-most-once and "
    "never-early do not need it)",
]


def pre_coq(V):
    """Regenerate coq/Gen/TimerConsts.v from the repository under check."""
    mod = V.go_modfile()
    out = os.path.join(V.COQ, "Gen", "TimerConsts.v")
    p = V.sh(["go", "run", "-modfile", mod, "./cmd/gen-timer-consts", V.REPO, out],
             cwd=V.HARNESS, env=V.GOENV, timeout=600, check=False)
    if p.returncode != 0:
        raise V.CheckError("C17: QuickTimeoutThreshold/QuickTimeout/SlowTimeout/CutoffRound can no longer be read as "
                           "constant expressions (coq/Gen/TimerConsts.v not regenerated):\n" + (p.stdout or ""))


def runs(tier, seed):
    if tier == "thorough":
        r = [("deadlines", ["deadlines"]), ("race", ["race", "-n", "30"])]
        r += [("controller%d" % i, ["controller", "-seed", str(seed * 1000 + i), "-n", "600"]) for i in range(6)]
        r += [("live%d" % i, ["live", "-seed", str(seed * 1000 + i), "-n", "1500", "-par", "16"]) for i in range(8)]
        return r
    return [("deadlines", ["deadlines"]),
            ("race", ["race", "-n", "6"]),
            ("controller", ["controller", "-seed", str(seed), "-n", "150"]),
            ("live", ["live", "-seed", str(seed), "-n", "300", "-par", "24"])]


def search_runs(tier, seed):
    return [("deadlines", ["deadlines"]), ("race", ["race", "-n", "12"]),
            ("controller", ["controller", "-seed", str(seed * 7919), "-n", "600"]),
            ("live", ["live", "-seed", str(seed * 7919), "-n", "600", "-par", "24"])]


def nontrivial(case):
    if case.header.split()[2:3] == ["deadlines"] or any(l.startswith("RT ") for l in case.lines):
        return True
    arms = sum(1 for l in case.lines if l.startswith("ARM "))
    fired = sum(1 for l in case.lines if l.startswith("OBS cb ") and " fired" in l)
    if arms >= 2 and fired >= 1:
        return True
    bumped = any(l.startswith("OBS ctimeout bumped") for l in case.lines)
    noop = any(l.startswith("OBS ctimeout") and "changed=0" in l for l in case.lines)
    return bumped and noop


def matches_known(finding, case):
    """C17-F1: the only violations of the case are callbacks that were invoked after a later TimeoutForRound
    had returned although their expiry was already due before that re-arming (so the goroutine had passed
    its Round() check - the check/callback race), and nothing else: no callback for a round superseded before
    its deadline, no early, duplicate or never-armed callback."""
    if finding.get("id") != "C17-F1":
        return False
    return bool(case.viol) and all(v.startswith("stale callback: round ") and
                                   "its expiry was due before the re-arming (Round() read" in v
                                   for v in case.viol)


TECHNIQUE = ("Coq proof over all schedules (armings, deliveries in any order and lateness, split or unsplit "
             "check/callback, cancellation) of an executable model of the round timer and of OnTimeout + constants "
             "regenerated from source + differential correspondence against the real RoundTimer on real time and the "
             "real controller")
LEVEL_TEXT = ("Machine-checked theorems about a Gallina model of RoundTimeout/TimeoutForRound/waitForRound and of "
              "Controller.OnTimeout: over EVERY schedule each arming calls back at most once; with a clock that does not go "
              "back no callback runs before the deadline of its round, which for attester/aggregator/sync roles is slot "
              "start + role base + cumulative allowance whenever the timer was armed and for the proposer is quick/slow "
              "from arming; with strictly increasing rounds and check+callback as one step every callback is for the "
              "currently armed round of the most recent arming and re-arming silences all earlier armings.  The statement "
              "without the one-step hypothesis is REFUTED in the model (C17_only_latest_refuted) and the witness replays on "
              "the real code (finding C17-F1).  A timeout event for an unknown height, a lower round, a decided or stopped "
              "instance leaves the controller model unchanged with no effects; so does the duplicate of an effective "
              "event and any event for a height other than the one just started.  The model is tied to the code by exact "
              "comparison of RoundTimeout tables (all roles, 11 option/slot settings, 27 rounds, 4 heights), by replaying "
              "recorded real-time sessions of the real timer through the model, and by exact comparison of the real "
              "controller's reaction (result class, state-root change, broadcasts, timer calls).")
LEVEL_NOTE = ("Trusted: Coq kernel + vm_compute, extraction (ExtrOcamlBasic), OCaml/Go drivers, the event log of the "
              "driver.  Liveness (the latest round does fire) is proved only inside the model (C17_latest_fires) and "
              "observed, not asserted, on real time.")
