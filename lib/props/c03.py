"""C03 - duty signatures are released only over the decided, validated duty data."""
import re

from props import runner_common

ID = "C03"
COQ_TARGETS = ["Gen/RunnerConsts.vo", "Props/C03.vo"]
AREA = "runner"
EXTRACT_V = "Runner/Extract.v"
GO_CMD = "hx-runner"
RUN_TIMEOUT = 1500
PARALLEL = 10
RULE = ("histories delivered to one real validator.Validator (7 duty runners, controllers built as the operator builds "
        "them) derived from honest 4-node runs of the real code: start-duty events and pre-/consensus/post-consensus "
        "messages in honest, perturbed, replayed and interleaved order, stale (slot-1) and future (slot+1) duties' "
        "messages, messages re-labelled to another role or another validator key, crafted certificates (valid quorum "
        "signatures) for other heights / over values failing the value check / undecodable; non-trivial = the case "
        "contains at least one stale, future, foreign, re-labelled or crafted message that is not rejected at decode; "
        "distinct by op lines")
TRUSTED_BASE = [
    "modelled, not verified: protocol/v2/ssv/validator/validator.go {StartDuty, ProcessMessage, validateMessage}, "
    "protocol/v2/ssv/runner/{runner.go baseStartNewDuty/ShouldProcessDuty/baseConsensusMsgProcessing/didDecideCorrectly/"
    "hasRunningDuty, runner_validations.go, runner_signatures.go} and StartNewDuty/executeDuty/ProcessPreConsensus/"
    "ProcessConsensus/ProcessPostConsensus of the seven runners; partial-signature containers as in C05",
    "the QBFT controller is an oracle: each consensus op line carries what the real controller reported for that "
    "message (error?, decided message?, RunningInstance.IsDecided() before the call), reconstructed by the driver "
    "around the real call from Controller.NewDecidedHandler and the stored instance's Decided flag; the decided "
    "value's decodability, the result of the role's real value-check function and the duty objects it contains "
    "are computed by the driver with the spec's functions",
    "driver: recording key manager (every SignBeaconObject call), recording network, spec TestingBeaconNode "
    "(every selection proof is an aggregator); signing roots are abstracted to small integers through an "
    "injective per-case table",
]
ASSUMPTIONS = [
    "C03_at_most_once_partial assumes the controller fact [oracle_consistent_at]: after the controller reported the "
    "running instance's decision to a duty, later calls of that duty see RunningInstance.IsDecided() = true. "
    "The real controller violates it after the instance was evicted from its 2-slot container (finding, corpus/C03/resign-after-eviction.ops)",
    "SSZ hash-tree-root / SHA-256 collision freeness (root ids are injective)",
    "one message is processed at a time per validator (the queue consumer serialises them); timeouts are not inputs",
    "beacon node calls made while a duty starts / a pre-consensus quorum forms succeed (TestingBeaconNode)",
]


def pre_coq(V):
    """coq/Gen/RunnerConsts.v: which variant of two repaired code paths the tree contains."""
    runner_common.pre_coq(V)


def runs(tier, seed):
    if tier == "thorough":
        return [("gen%d" % i, ["runner", "-seed", str(seed * 1000 + i), "-n", "1500"]) for i in range(14)]
    return [("gen%d" % i, ["runner", "-seed", str(seed * 100 + i), "-n", "170"]) for i in range(8)]


def search_runs(tier, seed):
    return [("gen%d" % i, ["runner", "-seed", str(seed * 7919 + i), "-n", "600"]) for i in range(3)]


def nontrivial(case):
    for l in case.lines:
        if l.startswith("RMSG D "):
            return True
        if l.startswith("RMSG U "):
            return True
        if l.startswith("RMSG T "):
            w = l.split()
            # stale / future duty, foreign key, re-labelled role
            if w[2] != w[5] or w[6] == "0":
                return True
    slots = set(l.split()[3] for l in case.lines if l.startswith("RMSG T "))
    return len(slots) > 1


_SIGNED = re.compile(r"^decided object signed \d+ times \(role (\w+),")


def matches_known(finding, case):
    """Signature of the re-signing defect, and nothing else: the only complaint is 'decided object signed
    N times', and before the repeated signature the controller of that role had reported decisions for at
    least two (= instance container capacity) distinct heights above the running duty's slot - the running
    instance was evicted from the controller, so the duty's own certificate is reported as a first
    decision again."""
    if finding.get("id") != "F-resign":
        return False
    if not case.viol:
        return False
    roles = set()
    for v in case.viol:
        m = _SIGNED.match(v)
        if not m:
            return False
        roles.add(m.group(1))
    slot, higher, pending, last_prev = {}, {}, None, None
    for l in case.lines:
        w = l.split()
        if l.startswith("RSTART "):
            pending = (w[1], int(w[2]))
            continue
        if l.startswith("OBS r ") and pending is not None:
            if w[2] in ("ok", "nostart"):
                slot[pending[0]], higher[pending[0]] = pending[1], set()
            pending = None
            continue
        if l.startswith("RMSG ") and ";" in w:
            k = w.index(";")
            role = w[5] if w[1] in ("T", "U") else w[6]
            last_prev = w[k + 2] if w[k - 1] == "C" else None
            if w[k - 1] == "C" and len(w) > k + 4 and w[k + 3] == "1" and role in slot:
                h = int(w[k + 4])
                if h > slot[role]:
                    higher[role].add(h)
        if l.startswith("MON viol"):
            m = _SIGNED.match(l[9:])
            # the repeated signature was made while the stale RunningInstance object was still undecided
            if not m or len(higher.get(m.group(1), ())) < 2 or last_prev != "0":
                return False
    return True


TECHNIQUE = ("Coq proof over all input histories of an executable model of the validator's duty runners with the QBFT "
             "controller as an oracle + differential correspondence against one real validator fed histories derived "
             "from honest 4-node runs of the real code (real BLS, real controllers and instances)")
LEVEL_TEXT = ("Machine-checked theorems about a Gallina model of Validator.StartDuty/ProcessMessage and the seven duty "
              "runners: every validator-key signature is either a start-of-duty proof over that duty's slot-bound "
              "pre-objects or a post-consensus signature over an object of the value the controller reported as the first "
              "decision of the running instance (height = duty slot, value decodes and passes the role's value check); "
              "per step exactly those objects, each once; messages of another validator, other roles, other heights, "
              "finished or absent duties, pre-/post-consensus messages cause no signature and touch no other runner; "
              "at most one signing step per duty under a stated controller fact (C03_at_most_once_partial); without it the "
              "clause is refuted for the runner as it is in the tree (it does not remember that it acted on a decision; "
              "the real controller breaks the fact after instance eviction: known finding F-resign) and proved, for every "
              "controller behaviour, for the repaired runner (C03_at_most_once_repaired); which variant is extracted and "
              "compared is read from the source on every run (coq/Gen/RunnerConsts.v). The model is tied to the code by "
              "diffing class, signing calls, partial-signature broadcasts and runner state after every input.")
LEVEL_NOTE = ("Trusted: Coq kernel + vm_compute, extraction, OCaml/Go drivers, the reconstruction of the controller's answer "
              "around the real call, the abstraction of roots and values to integers. The consensus instance itself is C01/C02/C06. "
              "'At most once per decided object' is only partial on the unchanged tree (C03_at_most_once_partial); the full "
              "clause is refuted there and reproduces on the real code (known finding F-resign); it is a theorem once "
              "work/fix-C03-resign.diff is in the tree.")
