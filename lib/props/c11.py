"""C11 - registry state is a deterministic function of the contract event log."""
from props.registry_common import AREA, EXTRACT_V, GO_CMD, pre_coq, dup_opid_in_block, TRUSTED_BASE  # noqa: F401

ID = "C11"
COQ_TARGETS = ["Props/C11.vo", "Registry/Crash.vo"]   # Crash.vo: the shared extraction needs it
RULE = ("histories of blocks of registry events (all eight kinds; valid and malformed ValidatorAdded: bad / replayed / "
        "foreign signature, unknown / duplicate / wrong-size committee, wrong shares length, undecryptable / mismatching / "
        "non-hex own key; removal and exit by a stranger; duplicate adds; unparsable logs), metadata updates, restarts, "
        "stale blocks, two OperatorAdded with one id in one block; non-trivial = the case registers at least one validator and contains at least one rejected "
        "ValidatorAdded or a ValidatorRemoved/Exited; distinct by op lines")
ASSUMPTIONS = [
    "operator ids in OperatorAdded events are non-zero (the contract counts from 1)",
    "only while coq/Gen/RegistryConsts.v says ops_read_committed = true (SaveOperatorData checking existence against the "
    "committed database, the state before fix cf04b819e / finding F10): no block contains two OperatorAdded events with the "
    "same id; with the fix in place the constant is false and the hypothesis is vacuous",
    "keccak256 collision freeness (cluster id), BLS / RSA correctness (enter as boolean facts of the abstract event)",
    "a fatal (non-malformed) handler error ends the process (logger.Fatal in the callers); in-memory state after it is not claimed",
    "badger transactions are atomic; single writer (the event handler) during block processing",
]
RUN_TIMEOUT = 900


def runs(tier, seed):
    if tier == "thorough":
        r = [("scripted", ["scripted"])]
        r += [("gen%d" % i, ["gen", "-seed", str(seed * 1000 + i), "-n", "400"]) for i in range(14)]
        return r
    return [("scripted", ["scripted"])] + \
           [("gen%d" % i, ["gen", "-seed", str(seed * 100 + i), "-n", "35"]) for i in range(4)]


def search_runs(tier, seed):
    return [("gen%d" % i, ["gen", "-seed", str(seed * 7919 + i), "-n", "150"]) for i in range(4)]


def nontrivial(case):
    has_share = any(l.startswith("OBS sh ") for l in case.lines)
    other = any(l.startswith(("E VR ", "E VX ", "E CL ", "E CR ")) for l in case.lines)
    return has_share and other


# The property is itself a refinement statement: "the operator's persisted shares, operators, fee recipients, per-owner
# registration nonces, liquidation flags ... and last processed block equal what the registration rules prescribe".
# The handler model refines the rule model for every history (C11_refines_spec...), so a case on which one of these
# observations differs between the real handler and the model is an event history on which the property fails.
SPEC_OBS = {"sh": "persisted share (owner, committee, own share key, liquidation flag, metadata)",
            "ops": "persisted operator set", "rcp": "persisted fee recipient / registration nonce record",
            "last": "last processed block", "self": "own operator id"}


def divergence_violation(case, d):
    _, impl, model = d
    ki = impl.split()[1] if impl.startswith("OBS ") and len(impl.split()) > 1 else ""
    km = model.split()[1] if model.startswith("OBS ") and len(model.split()) > 1 else ""
    if ki in SPEC_OBS and (km == ki or km in SPEC_OBS):
        return ("after this event history the %s is `%s`, the registration rules prescribe `%s`"
                % (SPEC_OBS[ki], impl[4:], model[4:]))
    return None


def matches_known(finding, case):
    # F10 (duplicate operator id inside one block) is FIXED (cf04b819e): nothing is suppressed.
    # dup_opid_in_block(case) is its signature, kept for the record.
    return False


TECHNIQUE = ("Coq proof that the handler model refines the rule-level registry for all histories + differential "
             "correspondence of the model against the real EventHandler over real storage, parser, crypto and key manager")
LEVEL_TEXT = ("Machine-checked theorems about two Gallina models - the registration rules (Spec) and the event handler as "
              "coded with its database / block transaction / in-memory share map / operator data split (Impl): refinement for "
              "all histories with increasing block numbers, independence from batching, in-memory view = database after every "
              "block, restart invisibility, and the rules themselves on Spec (who can add / remove / exit, nonce = number of "
              "attempts - 1 mod 2^16). The Impl model is tied to the code by running both on generated and scripted histories "
              "(real ABI parsing, RSA, BLS, badger, ekm) and diffing every observation after every block.")
LEVEL_NOTE = ("Trusted: Coq kernel + vm_compute, extraction, the drivers, the abstraction of bytes to small integers. "
              "uint16 wrap of the nonce is part of the statement. Concurrency (metadata updates racing a block) is not modelled.")
