"""C06 - the node's QBFT instance is observationally equal to the reference ssv-spec instance."""
ID = "C06"
COQ_TARGETS = ["Props/C06.vo"]
AREA = "qbft"
EXTRACT_V = "Qbft/Extract.v"
GO_CMD = "hx-qbft"
VIOL_TAG = "c06"
PARALLEL = 16
NO_MINIMISE = True   # a replay regenerates the whole network run from the CASE header
RULE = ("simulated networks of 4 and 7 real node instances, each shadowed by the reference ssv-spec instance fed the "
        "same start value, messages and timeouts; adversarial scheduler (deliver out of order / drop / replay / "
        "timeout / compact at arbitrary points) and forged or field-mutated messages (type, height, round, root, "
        "signers, signature, justifications, full data, identifier, data round), re-signed with real operator keys "
        "in 3 of 4 cases; plus EVERY history of length <= 2 (quick) / <= 3 (thorough) over a fixed 40-symbol alphabet of "
        "pre-signed messages, timeout and compaction fed to operator 4; one case = the complete input history of one instance. Non-trivial = the history reaches "
        "round >= 2 or contains a forged/mutated message that the instance accepts (msg ok after a byz/mutation "
        "injection is not separable per message, so: >= 1 accepted message and >= 1 error), distinct by op lines")
TRUSTED_BASE = [
    "modelled, not verified: protocol/v2/qbft/instance/*.go and ssv-spec v0.3.7 qbft/*.go (MsgContainer, Validate, "
    "RoundRobinProposer incl. Go int wrap-around), one Gallina step function with a variant record for both",
    "abstraction in the driver: value = 8-byte id, root = table sha256(value)->hash id, sig_ok = result of the real "
    "types.VerifyByOperators on every (nested) message, fmt_ok = justification bytes decode",
]
ASSUMPTIONS = [
    "SHA-256 collision freeness (hash modelled as an injective function)",
    "BLS signing is deterministic, so equal messages have equal encodings (used by the node-vs-reference monitor)",
    "the reference instance has no compaction: state roots are compared only on histories without compaction",
]
TECHNIQUE = ("Coq simulation proof (compaction of an undecided instance commutes with every step and preserves all outputs; "
             "node and reference variants of one step function) + three-way differential check node / reference / extracted model")
LEVEL_TEXT = ("Machine-checked: the node's instance and the reference are the same Gallina step function up to two flags; "
              "compacting an undecided instance leaves every later output unchanged (simulation relation, all histories); "
              "the statement for compaction after a decision is refuted by a vm_compute witness (finding F4). The model is tied "
              "to both implementations by running real node instance, real reference instance and extracted model on the same "
              "generated histories and comparing error/nil, broadcasts, decided flag/value, timers and a projection of the state "
              "after every step.")
LEVEL_NOTE = ("Trusted: Coq kernel, extraction, drivers, the abstraction of messages (see trusted_base). Known finding F4 "
              "(compaction of a DECIDED instance clears the prepare/proposal/round-change containers and changes later "
              "broadcasts) is reported as KNOWN-FINDING, any difference not preceded by such a compaction is a VIOLATION.")


def runs(tier, seed):
    if tier == "thorough":
        r = []
        for i in range(10):
            r.append(("net4-%d" % i, ["net", "-seed", str(seed * 100 + i), "-n", "150", "-size", "4", "-mut"]))
        for i in range(6):
            r.append(("net7-%d" % i, ["net", "-seed", str(seed * 100 + 50 + i), "-n", "40", "-size", "7", "-mut"]))
        r += [("exh3-%d" % i, ["exh", "-len", "3", "-shard", str(i), "-of", "16"]) for i in range(16)]
        return r
    r = [("net4-%d" % i, ["net", "-seed", str(seed * 100 + i), "-n", "25", "-size", "4", "-mut"]) for i in range(10)]
    r += [("net7-%d" % i, ["net", "-seed", str(seed * 100 + 50 + i), "-n", "6", "-size", "7", "-mut"]) for i in range(6)]
    r += [("exh2-%d" % i, ["exh", "-len", "2", "-shard", str(i), "-of", "4"]) for i in range(4)]
    return r


def search_runs(tier, seed):
    return [("s%d" % i, ["net", "-seed", str(seed * 977 + i), "-n", "60", "-size", "4", "-mut"]) for i in range(8)]


def nontrivial(case):
    ok = err = False
    for l in case.lines:
        if l.startswith("OBS msg ok"):
            ok = True
        elif l.startswith("OBS msg err"):
            err = True
    return ok and err


def matches_known(finding, case):
    """F4: the first node-vs-reference difference happens after the instance was compacted while decided."""
    if finding.get("id") != "F4":
        return False
    decided = False
    compacted_decided = False
    for l in case.lines:
        if l.startswith("OBS st "):
            p = l.split()
            decided = len(p) > 6 and p[6] == "1"
        elif l == "COMPACT":
            if decided:
                compacted_decided = True
        elif l.startswith("MON viol c06"):
            return compacted_decided
    return False
