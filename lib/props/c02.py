"""C02 - every reported decision is backed by a verifiable quorum certificate."""
ID = "C02"
COQ_TARGETS = ["Props/C02.vo"]
AREA = "qbft"
EXTRACT_V = "Qbft/Extract.v"
GO_CMD = "hx-qbft"
VIOL_TAG = "c02"
PARALLEL = 16
NO_MINIMISE = True
RULE = ("(a) 'decided' mode: a real controller with a running instance is fed honestly aggregated commit certificates "
        "(q, q+1, n signers) and one forgery each from the property's grammar: duplicate signer, id 0, non-committee id, "
        "sub-quorum size, signature aggregated from another subset than listed, value not matching root, wrong height, "
        "wrong identifier, non-commit type, corrupted signature; (b) controller-level network runs with <= f Byzantine "
        "operators forging decided messages from replayed commits; (c) 'solo' histories: one correct operator and every other key "
        "playing proposal / prepares / commits for rounds 1..3 signed by the right or a wrong leader, justified or not, with a "
        "valid or invalid value - every locally reached decision must rest on the accepted proposal of the round's leader. Every reported decision (returned by "
        "Controller.ProcessMsg) is checked by the monitor with real BLS verification. Non-trivial = the case contains a "
        "decided-shaped message that is refused (cmsg err after a message with >= quorum signers) or a reported decision; "
        "distinct by op lines")
TRUSTED_BASE = [
    "modelled, not verified: controller.ProcessMsg / UponDecided / ValidateDecided / IsDecidedMsg for one height, "
    "instance.UponCommit / aggregateCommitMsgs / BaseCommitValidation / isValidProposal, MsgContainer.LongestUniqueSignersForRoundAndRoot",
    "sig_ok of every message = result of the real types.VerifyByOperators (which refuses signers outside the committee)",
    "decided messages for OTHER heights (future / past instances) are the subject of C15's controller model, not of this one",
]
ASSUMPTIONS = [
    "SHA-256 collision freeness (hash injective)",
    "BLS aggregate verification is sound: FastAggregateVerify over the listed committee keys accepts only if every listed signer signed that signing root",
]
TECHNIQUE = ("Coq theorems over all instance states / all controller histories (certificate shape of every reported decision; "
             "forged decided messages leave the state unchanged) + differential check of the real controller against the extracted model")
LEVEL_TEXT = ("Machine-checked for ALL messages and states: a decision reported upon a decided message is that message and is a "
              "certificate (commit type, distinct non-zero signers, >= quorum, verifying aggregate, value hashes to root); any "
              "decided-shaped message that is not a certificate, has a foreign identifier or fewer than quorum signers is refused "
              "and leaves the instance untouched; for ALL histories from a started instance a locally reached decision is a "
              "certificate built from validated single-signer commits of one (height, round, root), and its value is the full data "
              "of the accepted proposal, which passed the value check and was signed by the round's leader (invariant by induction "
              "over controller histories incl. compaction). Tied to the code by running real controller and extracted model on the "
              "same forged and honest inputs.")
LEVEL_NOTE = ("Trusted: Coq kernel, extraction, drivers; BLS soundness and that VerifyByOperators rejects non-committee signers are "
              "oracle facts fed from the real verifier. Other heights are covered by C15.")


NO_MODEL_RUNS = ("netfail",)


def runs(tier, seed):
    k = 4 if tier == "thorough" else 1
    r = [("decided4-%d" % i, ["decided", "-seed", str(seed * 10 + i), "-n", str(400 * k), "-size", "4"]) for i in range(4)]
    r += [("decided7-%d" % i, ["decided", "-seed", str(seed * 10 + 5 + i), "-n", str(150 * k), "-size", "7"]) for i in range(2)]
    r += [("ctrl4-%d" % i, ["net", "-level", "ctrl", "-seed", str(seed * 100 + i), "-n", str(20 * k), "-size", "4"]) for i in range(6)]
    r += [("ctrl7-%d" % i, ["net", "-level", "ctrl", "-seed", str(seed * 100 + 20 + i), "-n", str(5 * k), "-size", "7"]) for i in range(3)]
    r += [("solo-%d" % i, ["attack", "-only", "solo", "-seed", str(seed * 100 + 40 + i), "-n", str(60 * k)]) for i in range(2)]
    r += [("attack-%d" % i, ["attack", "-seed", str(seed * 100 + 50 + i), "-n", str(16 * k)]) for i in range(2)]
    # monitor only (the model has no failing publish): a timeout whose round change cannot be published, then commits of the next round
    r += [("netfail-%d" % i, ["attack", "-only", "solo-netfail", "-seed", str(seed * 100 + 60 + i), "-n", str(40 * k)]) for i in range(1)]
    return r


def search_runs(tier, seed):
    return [("ss%d" % i, ["attack", "-only", "solo", "-seed", str(seed * 983 + i), "-n", "200"]) for i in range(4)] + [("sd%d" % i, ["decided", "-seed", str(seed * 991 + i), "-n", "1500", "-size", "4"]) for i in range(4)]


def nontrivial(case):
    return any(l.startswith("OBS cmsg decided") or l.startswith("OBS cmsg err") for l in case.lines)


def matches_known(finding, case):
    return False
