"""Generic check driver for the Coq-model / Go-implementation correspondence checks.

One property = one plugin module in lib/props/ (see lib/props/c14.py for the smallest one).
Flow of a run (DESIGN.md section 2.2):
  1. regenerate harness/go.mod and (if the plugin asks) coq/Gen/*.v from the repository
  2. make the property's Coq targets (full .vo build), capture Print Assumptions
  3. audit the Coq sources for forbidden vernacular
  4. extract the model to OCaml and build its runner
  5. build the Go driver from the repository's current working tree (-tags verif)
  6. run corpus + generated cases on implementation and model, diff OBS lines, read MON lines
  7. decide, minimise, write replay + evidence
"""
import hashlib
import importlib
import json
import os
import re
import shutil
import subprocess
import sys
import time

ROOT = os.path.dirname(os.path.dirname(os.path.abspath(__file__)))
COQ = os.path.join(ROOT, "coq")
OCAML = os.path.join(ROOT, "ocaml")
HARNESS = os.path.join(ROOT, "harness")
BIN = os.path.join(ROOT, "bin")
REPO = os.environ.get("VERIF_REPO", "/repo")
# scratch files; a run against another tree (bin/mutant-run) gets its own directory
WORK = os.path.join(ROOT, "work") if REPO == "/repo" else \
    os.path.join(ROOT, "work", "alt-" + hashlib.sha1(REPO.encode()).hexdigest()[:8])

# A run against another tree also gets its own copy of the Coq development and of the extracted runners
# (18 + 23 MB, copied with time stamps so that only what the tree changes is rebuilt): files regenerated
# from the tree (coq/Gen/*.v, model.ml) must not leak into a concurrent run on /repo, and vice versa.
if REPO != "/repo":
    os.makedirs(WORK, exist_ok=True)
    for _name, _lock in (("coq", "coq.lock"), ("ocaml", "ocaml.lock")):
        _dst = os.path.join(WORK, _name)
        if not os.path.isdir(_dst):
            subprocess.run(["flock", os.path.join(ROOT, "work", _lock), "cp", "-a", os.path.join(ROOT, _name), _dst + ".tmp%d" % os.getpid()], check=True)
            try:
                os.rename(_dst + ".tmp%d" % os.getpid(), _dst)
            except OSError:
                subprocess.run(["rm", "-rf", _dst + ".tmp%d" % os.getpid()])
    COQ = os.path.join(WORK, "coq")
    OCAML = os.path.join(WORK, "ocaml")
LOCKS = os.path.join(ROOT, "work") if REPO == "/repo" else WORK

GOENV = dict(os.environ, GOFLAGS="-mod=mod", GOPROXY="off", GOSUMDB="off", GOTOOLCHAIN="local",
             CGO_LDFLAGS_ALLOW=".*")

FORBIDDEN = re.compile(
    r"\b(Admitted|admit|Axiom|Axioms|Parameter|Parameters|Conjecture|Conjectures|Abort All|"
    r"Unset Guard Checking|Unset Positivity Checking|Unset Universe Checking|bypass_check|"
    r"native_compute|Admit Obligations)\b|-type-in-type|-impredicative-set")


class CheckError(Exception):
    """The machinery itself failed (build error of the harness etc.)."""


def sh(cmd, cwd=None, env=None, timeout=1800, check=True, stdin=None, stdout=subprocess.PIPE):
    p = subprocess.run(cmd, cwd=cwd, env=env, timeout=timeout, stdin=stdin, stdout=stdout,
                       stderr=subprocess.STDOUT, text=True, shell=isinstance(cmd, str))
    if check and p.returncode != 0:
        raise CheckError("command failed (%d): %s\n%s" % (p.returncode, cmd, (p.stdout or "")[-4000:]))
    return p


# ---------------------------------------------------------------------------------------------------
# build steps

def go_modfile():
    """go.mod of the harness, regenerated from the repository's own go.mod."""
    if REPO == "/repo":
        mod = os.path.join(HARNESS, "go.mod")
    else:
        h = hashlib.sha1(REPO.encode()).hexdigest()[:8]
        mod = os.path.join(HARNESS, "alt-%s.mod" % h)
    sh([os.path.join(HARNESS, "mkgomod.sh"), REPO, mod])
    return mod


def go_build(cmd_name, tags="verif", extra_ldflags=""):
    mod = go_modfile()
    out = os.path.join(BIN, cmd_name if REPO == "/repo" else
                       cmd_name + "-alt-" + hashlib.sha1(REPO.encode()).hexdigest()[:8])
    args = ["go", "build", "-tags", tags, "-overlay", os.path.join(HARNESS, "overlay", "overlay.json"),
            "-modfile", mod, "-ldflags=-checklinkname=0 " + extra_ldflags, "-o", out, "./cmd/" + cmd_name]
    p = sh(args, cwd=HARNESS, env=GOENV, timeout=1500, check=False)
    if p.returncode != 0:
        return None, p.stdout
    return out, p.stdout


def coq_make(targets, timeout=1500):
    """Full .vo build of the given targets. Returns (ok, output)."""
    os.makedirs(WORK, exist_ok=True)
    lock = os.path.join(LOCKS, "coq.lock")     # several checks may run at once; one make at a time
    p = sh("flock %s sh -c './mkproject.sh && make -j16 %s'" % (lock, " ".join(targets)),
           cwd=COQ, timeout=timeout, check=False)
    return p.returncode == 0, p.stdout


def coq_cone(target_v):
    """.v files (relative to coq/) the given file depends on, transitively, including itself."""
    dep = {}
    dfile = os.path.join(COQ, ".Makefile.d")
    if os.path.exists(dfile):
        for line in open(dfile):
            if ":" not in line:
                continue
            lhs, rhs = line.split(":", 1)
            vo = [x for x in lhs.split() if x.endswith(".vo")]
            if not vo:
                continue
            dep[vo[0][:-1]] = [x[:-1] for x in rhs.split() if x.endswith(".vo") and not x.startswith("/")]
    seen, todo = [], [target_v]
    while todo:
        f = todo.pop()
        if f in seen:
            continue
        seen.append(f)
        todo.extend(dep.get(f, []))
    return sorted(seen)


STMT = re.compile(r"^\s*(?:Local\s+|Global\s+)?(Theorem|Lemma|Corollary|Example|Fact|Proposition)\s+([A-Za-z0-9_']+)", re.M)


def coq_obligations(files):
    """Named statements in the cone; each is discharged iff the .vo built (Qed-closed, no Admitted)."""
    names = []
    for f in files:
        src = open(os.path.join(COQ, f)).read()
        names += [(f, m.group(2)) for m in STMT.finditer(src)]
    return names


def coq_audit(files=None):
    bad = []
    for dirpath, _, fnames in os.walk(COQ):
        for fn in fnames:
            if not fn.endswith(".v") and fn != "_CoqProject":
                continue
            path = os.path.join(dirpath, fn)
            for i, line in enumerate(open(path, errors="replace"), 1):
                code = re.sub(r"\(\*.*?\*\)", "", line)
                if FORBIDDEN.search(code):
                    bad.append("%s:%d: %s" % (os.path.relpath(path, ROOT), i, line.strip()))
    return bad


def parse_assumptions(make_output, log_path=None):
    """Print Assumptions results captured from the build output (only present when the file was
    recompiled); the per-property log keeps the last one seen."""
    closed = make_output.count("Closed under the global context")
    axioms = re.findall(r"^Axioms:\n((?:.+\n)+?)(?=\S|\Z)", make_output, re.M)
    return closed, axioms


def assumptions_of(props_v):
    """Re-runs Print Assumptions for every theorem of a Props file through coqtop (cheap: loads
    the compiled .vo)."""
    src = open(os.path.join(COQ, props_v)).read()
    names = [m.group(2) for m in STMT.finditer(src) if m.group(1) == "Theorem"]
    mod = "SSV." + props_v[:-2].replace("/", ".")
    script = "Require Import %s.\n" % mod + "".join("Print Assumptions %s.\n" % n for n in names)
    p = subprocess.run(["coqtop", "-Q", COQ, "SSV", "-quiet"], input=script, text=True,
                       capture_output=True, timeout=600, cwd=COQ)
    out = p.stdout + p.stderr
    closed = out.count("Closed under the global context")
    axioms = sorted(set(re.findall(r"^([A-Za-z_][A-Za-z0-9_.']*)\s*:", out, re.M)) - {"Coq", "Error"}) \
        if "Axioms:" in out else []
    return names, closed, axioms, out


def ocaml_build(area, extract_v):
    """Extract (coqc run inside ocaml/<area>/ so model.ml lands there) and build the runner."""
    d = os.path.join(OCAML, area)
    src = os.path.join(COQ, extract_v)
    os.makedirs(WORK, exist_ok=True)
    lock = os.path.join(LOCKS, "ocaml.lock")
    sh(["flock", lock, "coqc", "-Q", COQ, "SSV", src], cwd=d, timeout=900)
    sh(["flock", lock, "dune", "build", "./%s/run.exe" % area], cwd=OCAML, timeout=900)
    return os.path.join(OCAML, "_build", "default", area, "run.exe")


# ---------------------------------------------------------------------------------------------------
# protocol parsing and diffing

class Case:
    __slots__ = ("header", "lines", "obs", "viol", "nops")

    def __init__(self, header):
        self.header = header
        self.lines = []   # every line of the case as written by the driver (ops, OBS, MON, notes)
        self.obs = []     # OBS lines
        self.viol = []    # MON viol texts
        self.nops = 0


def parse_stream(text):
    cases, dist, summary, cur = [], {}, {}, None
    for line in text.splitlines():
        if line.startswith("CASE "):
            cur = Case(line)
            cases.append(cur)
        elif line == "END":
            cur = None
        elif line.startswith("DIST "):
            _, k, v = line.split()
            dist[k] = dist.get(k, 0) + int(v)
        elif line.startswith("SUMMARY "):
            for kv in line.split()[1:]:
                k, v = kv.split("=")
                summary[k] = int(v)
        elif cur is not None:
            cur.lines.append(line)
            if line.startswith("OBS "):
                cur.obs.append(line)
            elif line.startswith("MON viol"):
                cur.viol.append(line[9:])
            elif not line.startswith("#"):
                cur.nops += 1
    return cases, dist, summary


def first_diff(a, b):
    for i, (x, y) in enumerate(zip(a, b)):
        if x != y:
            return i, x, y
    if len(a) != len(b):
        i = min(len(a), len(b))
        return i, (a[i] if i < len(a) else "<missing>"), (b[i] if i < len(b) else "<missing>")
    return None


def run_pair(driver, model, argv, tag, timeout=1500, env=None):
    """Runs the implementation driver and the model on its output. Returns dict."""
    os.makedirs(WORK, exist_ok=True)
    impl_path = os.path.join(WORK, tag + ".impl")
    model_path = os.path.join(WORK, tag + ".model")
    hung = False
    with open(impl_path, "w") as fh:
        try:
            p = subprocess.run([driver] + argv, stdout=fh, stderr=subprocess.PIPE, text=True, timeout=timeout,
                               env=env)
            rc, err = p.returncode, p.stderr
        except subprocess.TimeoutExpired as e:
            # the implementation under the driver did not come back: reported as a broken correspondence
            hung, rc = True, "timeout"
            err = "driver did not terminate within %d s (the code under test hangs or is far slower than on the unchanged tree)\n%s" % (
                timeout, (e.stderr or b"")[-1500:] if isinstance(e.stderr, (bytes, str)) else "")
    res = {"tag": tag, "argv": argv, "impl_path": impl_path, "driver_rc": rc,
           "driver_err": str(err)[-3000:], "mismatch": [], "viol": [], "cases": [], "dist": {}}
    text = open(impl_path).read()
    cases, dist, summary = parse_stream(text)
    res["cases"], res["dist"], res["summary"] = cases, dist, summary
    if rc != 0 or not summary:
        res["crashed"] = True
    if model is not None and not hung:
        with open(impl_path) as fin, open(model_path, "w") as fout:
            pm = subprocess.run([model], stdin=fin, stdout=fout, stderr=subprocess.PIPE, text=True, timeout=timeout)
        if pm.returncode != 0:
            raise CheckError("model runner failed: " + pm.stderr[-2000:])
        mcases, _, _ = parse_stream(open(model_path).read())
        for i, c in enumerate(cases):
            mobs = mcases[i].obs if i < len(mcases) else []
            d = first_diff(c.obs, mobs)
            if d is not None:
                res["mismatch"].append((i, d, mobs))
    for i, c in enumerate(cases):
        if c.viol:
            res["viol"].append(i)
    return res


def write_replay(pid, seed, k, case, extra):
    os.makedirs(os.path.join(ROOT, "replays"), exist_ok=True)
    path = os.path.join(ROOT, "replays", "%s-%s-%d.txt" % (pid, seed, k))
    with open(path, "w") as fh:
        for key, val in extra.items():
            for line in str(val).splitlines() or [""]:
                fh.write("# %s: %s\n" % (key, line))
        fh.write(case.header + "\n")
        for line in case.lines:
            fh.write(line + "\n")
        fh.write("END\n")
    return os.path.relpath(path, ROOT)


def minimise(driver, model, case, still_fails, budget_s=40):
    """ddmin over the operation lines of a case, re-running implementation + model through the
    driver's replay mode.  still_fails(result) -> bool."""
    ops = [l for l in case.lines if not (l.startswith("OBS ") or l.startswith("MON ") or l.startswith("#"))]
    t0 = time.time()
    tmp = os.path.join(WORK, "min-%d.ops" % os.getpid())
    mintag = "min-%d" % os.getpid()

    def test(cand):
        with open(tmp, "w") as fh:
            fh.write(case.header + "\n" + "\n".join(cand) + "\nEND\n")
        try:
            r = run_pair(driver, model, ["replay", tmp], mintag, timeout=120)
        except Exception:
            return None
        return r if still_fails(r) else None

    best = test(ops)
    if best is None:
        return None
    n = 2
    while len(ops) >= 2 and time.time() - t0 < budget_s:
        chunk = max(1, len(ops) // n)
        reduced = False
        for i in range(0, len(ops), chunk):
            cand = ops[:i] + ops[i + chunk:]
            if not cand:
                continue
            r = test(cand)
            if r is not None:
                ops, best, reduced = cand, r, True
                n = max(n - 1, 2)
                break
            if time.time() - t0 > budget_s:
                break
        if not reduced:
            if chunk == 1:
                break
            n = min(len(ops), n * 2)
    return best


# ---------------------------------------------------------------------------------------------------
# known findings

def load_known():
    path = os.path.join(ROOT, "known_findings.json")
    if not os.path.exists(path):
        return []
    return json.load(open(path)).get("findings", [])


# ---------------------------------------------------------------------------------------------------
# main

def main(argv):
    import argparse
    ap = argparse.ArgumentParser()
    ap.add_argument("prop")
    ap.add_argument("--tier", default=os.environ.get("VERIF_TIER", "quick"))
    ap.add_argument("--replay")
    ap.add_argument("--no-build", action="store_true")
    a = ap.parse_args(argv)
    seed = int(os.environ.get("VERIF_SEED", "1") or 1)
    tier = a.tier if a.tier in ("quick", "thorough") else "quick"
    plugin = importlib.import_module("props." + a.prop.lower())
    from runner import run_property
    return run_property(plugin, tier, seed, a.replay, a.no_build)
