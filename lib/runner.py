"""run_property: the decision procedure shared by every property (DESIGN.md 2.2 step 5)."""
import json
import os
import sys
import time
import traceback
from concurrent.futures import ThreadPoolExecutor

import vcheck as V


def _evidence(plugin, tier, seed, t0, cov, violations, assumptions):
    evdir = os.environ.get("VERIF_EVIDENCE_DIR") or os.path.join(V.ROOT, "evidence")
    os.makedirs(evdir, exist_ok=True)
    ev = {
        "property_id": plugin.ID, "tier": tier, "seed": seed, "level": "proof",
        "coverage": cov, "assumptions": assumptions, "wall_s": round(time.time() - t0, 2),
        "violations": violations,
    }
    with open(os.path.join(evdir, plugin.ID + ".json"), "w") as fh:
        json.dump(ev, fh, indent=1, default=str)


def run_property(plugin, tier, seed, replay=None, no_build=False):
    t0 = time.time()
    pid = plugin.ID
    log = []
    violations = []      # (replay path, text, no_failing_input)
    known_lines = []
    broken = []          # names of theorems / correspondences that no longer check

    def say(msg):
        print(msg, flush=True)
        log.append(msg)

    # -- 1/2: Coq ------------------------------------------------------------------------------
    if hasattr(plugin, "pre_coq"):
        plugin.pre_coq(V)     # e.g. regenerate coq/Gen/*.v from the repository
    ok, out = V.coq_make(plugin.COQ_TARGETS)
    cone = []
    for t in plugin.COQ_TARGETS:
        for f in V.coq_cone(t[:-1]):
            if f not in cone:
                cone.append(f)
    obligations = V.coq_obligations(cone)
    discharged = len(obligations) if ok else 0
    proof_failure = None
    if not ok:
        proof_failure = out[-3000:]
        import re
        m = re.search(r'File "\./([^"]+)", line (\d+).*?\n(Error:.*?)(?:\n\n|\Z)', out, re.S)
        where = "%s:%s" % (m.group(1), m.group(2)) if m else "unknown"
        # find the statement being proved at that line
        stmt = where
        if m:
            src = open(os.path.join(V.COQ, m.group(1))).read().splitlines()[: int(m.group(2))]
            for line in reversed(src):
                mm = V.STMT.match(line)
                if mm:
                    stmt = "%s (%s)" % (mm.group(2), where)
                    break
        broken.append("proof obligation " + stmt)
        say("%s: Coq build FAILED at %s" % (pid, stmt))
        # Coq files not depending on the failure may still be fine: compute discharged honestly
        discharged = sum(1 for f, _ in obligations if os.path.exists(os.path.join(V.COQ, f + "o")) and
                         os.path.getmtime(os.path.join(V.COQ, f + "o")) >= os.path.getmtime(os.path.join(V.COQ, f)))
    audit = V.coq_audit()
    if audit:
        raise V.CheckError("forbidden vernacular in the Coq development:\n" + "\n".join(audit))
    thm_names, closed, axioms = [], 0, []
    if ok:
        for t in plugin.COQ_TARGETS:
            if t.startswith("Props/"):
                n, c, ax, _ = V.assumptions_of(t[:-1])
                thm_names += n
                closed += c
                axioms += ax

    # -- 4/5: model runner and driver -----------------------------------------------------------
    model = None
    if getattr(plugin, "AREA", None):
        model = V.ocaml_build(plugin.AREA, plugin.EXTRACT_V)
    driver, gout = V.go_build(plugin.GO_CMD)
    if driver is None:
        # the harness no longer builds against the tree: the correspondence cannot be run
        broken.append("correspondence %s (driver does not build against the repository)" % plugin.GO_CMD)
        say("%s: Go driver build FAILED\n%s" % (pid, gout[-2000:]))

    # -- 6: runs ---------------------------------------------------------------------------------
    results = []
    runs = []
    if driver is not None:
        if replay:
            runs = [("replay", ["replay", os.path.abspath(replay)])]
        else:
            cdir = os.path.join(V.ROOT, "corpus", pid)
            if os.path.isdir(cdir):
                for fn in sorted(os.listdir(cdir)):
                    if fn.endswith(".ops"):
                        runs.append(("corpus-" + fn[:-4], ["replay", os.path.join(cdir, fn)]))
            runs += plugin.runs(tier, seed)
        # EXTRA_RUNS: correspondence runs of ANOTHER area's driver + extracted model that this property's theorems
        # also rest on (e.g. C10's composition theorem is about the validation model, which hx-val ties to the code).
        # Only their model / implementation differences count here; their monitors belong to their own properties.
        extra = []
        if not replay and hasattr(plugin, "EXTRA_RUNS"):
            built = {}
            for ent in plugin.EXTRA_RUNS(tier, seed):
                (cmd, area, extract_v, tag, argv), keep = ent[:5], (ent[5] if len(ent) > 5 else None)
                if cmd not in built:
                    d2, g2 = V.go_build(cmd)
                    m2 = V.ocaml_build(area, extract_v) if d2 is not None else None
                    built[cmd] = (d2, m2)
                    if d2 is None:
                        broken.append("correspondence %s (driver does not build against the repository)" % cmd)
                d2, m2 = built[cmd]
                if d2 is not None:
                    extra.append((tag, argv, d2, m2, keep))
        def do(r):
            if len(r) == 5:
                tag, argv, d2, m2, keep = r
                res = V.run_pair(d2, m2, argv, "%s-%s" % (pid, tag), timeout=getattr(plugin, "RUN_TIMEOUT", 1500))
                res["_driver"], res["_model"], res["_extra"] = d2, m2, True
                # of the other driver's monitor lines only those written for THIS property (tag `keep`) count
                for c in res["cases"]:
                    c.viol = [v for v in c.viol if keep and v.startswith(keep + " ")]
                res["viol"] = [i for i, c in enumerate(res["cases"]) if c.viol]
                return res
            tag, argv = r
            return V.run_pair(driver, model if not getattr(plugin, "NO_MODEL_RUNS", ()) or tag.split("-")[0] not in plugin.NO_MODEL_RUNS else None,
                              argv, "%s-%s" % (pid, tag), timeout=getattr(plugin, "RUN_TIMEOUT", 1500))
        with ThreadPoolExecutor(max_workers=getattr(plugin, "PARALLEL", 8)) as ex:
            results = list(ex.map(do, runs + extra))
        tag = getattr(plugin, "VIOL_TAG", None)
        if tag:   # a driver shared by several properties tags its monitor lines; keep this property's
            for r in results:
                if r.get("_extra"):
                    continue
                for c in r["cases"]:
                    c.viol = [v for v in c.viol if v.startswith(tag + " ")]
                r["viol"] = [i for i, c in enumerate(r["cases"]) if c.viol]
        excl = getattr(plugin, "VIOL_EXCLUDE", ())
        if excl:  # monitor lines the driver writes for another property
            for r in results:
                if r.get("_extra"):
                    continue
                for c in r["cases"]:
                    c.viol = [v for v in c.viol if not v.startswith(tuple(x + " " for x in excl))]
                r["viol"] = [i for i, c in enumerate(r["cases"]) if c.viol]

    known = [k for k in V.load_known() if k.get("property") == pid and k.get("status") == "known"]
    evaluations = ops = 0
    dist = {}
    samples = []
    nontrivial = set()
    k = 0
    mismatches = []
    for r in results:
        evaluations += len(r["cases"])
        for kk, vv in r["dist"].items():
            dist[kk] = dist.get(kk, 0) + vv
        ops += sum(c.nops for c in r["cases"])
        for c in r["cases"]:
            if plugin.nontrivial(c):
                nontrivial.add(hash(tuple(l for l in c.lines if not l.startswith("#"))))
        if r["cases"] and len(samples) < 3:
            c = r["cases"][min(len(r["cases"]) - 1, 1)]
            samples.append({"run": r["tag"], "case": c.header, "lines": c.lines[:40]})
        if r.get("crashed"):
            broken.append("correspondence run %s (driver exited %s: %s)" % (r["tag"], r["driver_rc"], r["driver_err"][-500:]))
        for i in r["viol"]:
            c = r["cases"][i]
            fid = None
            for kf in known:
                if plugin.matches_known(kf, c):
                    fid = kf
                    break
            if fid is not None:
                line = "KNOWN-FINDING: property=%s %s" % (pid, fid["what"])
                if line not in known_lines:
                    known_lines.append(line)
                continue
            if len(violations) < 5:
                small = None
                if not getattr(plugin, "NO_MINIMISE", False):
                    try:
                        small = V.minimise(r.get("_driver", driver), None, c, lambda rr: bool(rr["viol"]))
                    except Exception:
                        small = None
                cc = small["cases"][small["viol"][0]] if small else c
                k += 1
                path = V.write_replay(pid, seed, k, cc, {
                    "property": pid, "kind": "monitor violation on the implementation",
                    "what": "; ".join(cc.viol[:3]), "run": r["tag"], "argv": " ".join(r["argv"]),
                    "replay_with": ("%s replay <this file>   (the driver of this extra run)" % os.path.relpath(r["_driver"], V.ROOT))
                                   if r.get("_extra") else "bin/check %s --replay <this file>" % pid})
                violations.append((path, cc.viol[0], False))
        for (i, d, mobs) in r["mismatch"]:
            if i in r["viol"]:
                continue
            mismatches.append((r, i, d, mobs))

    # Properties that ARE a refinement statement ("the persisted state equals what the rules prescribe"): when the
    # observation that differs is one of the state components the property names, the history of that case is a
    # failing input - the implementation's state is not the one the proven rule model prescribes for it.
    dv = getattr(plugin, "divergence_violation", None)
    if mismatches and not violations and dv is not None:
        for (r, i, d, mobs) in mismatches:
            c = r["cases"][i]
            why = dv(c, d)
            if not why:
                continue
            small = None
            if not getattr(plugin, "NO_MINIMISE", False):
                try:
                    small = V.minimise(driver, model, c, lambda x: any(dv(x["cases"][j], dd) for (j, dd, _) in x["mismatch"]))
                except Exception:
                    small = None
            if small:
                for (j, dd, mm) in small["mismatch"]:
                    w2 = dv(small["cases"][j], dd)
                    if w2:
                        c, d, mobs, why = small["cases"][j], dd, mm, w2
                        break
            k += 1
            c.lines.append("# model observations: " + " | ".join(mobs))
            path = V.write_replay(pid, seed, k, c, {
                "property": pid, "kind": "the implementation's state after this history is not the state the rule model prescribes",
                "what": why, "run": r["tag"], "argv": " ".join(r["argv"]),
                "first_difference": "observation %d: implementation `%s`, model `%s`" % (d[0], d[1], d[2]),
                "replay_with": "bin/check %s --replay <this file>" % pid})
            violations.append((path, why, False))
            say("%s: %s" % (pid, why))
            break

    # correspondence differs but the monitor is silent: search for a failing input, else report
    if mismatches and not violations:
        r, i, d, mobs = mismatches[0]
        c = r["cases"][i]
        say("%s: model and implementation differ (run %s, case %d, observation %d): impl `%s` model `%s`"
            % (pid, r["tag"], i, d[0], d[1], d[2]))
        found = None
        if driver is not None and hasattr(plugin, "search_runs"):
            for tag, argv in plugin.search_runs(tier, seed):
                rr = V.run_pair(driver, None, argv, "%s-search-%s" % (pid, tag))
                evaluations += len(rr["cases"])
                vi = [j for j in rr["viol"] if not any(plugin.matches_known(kf, rr["cases"][j]) for kf in known)]
                if vi:
                    found = (rr, vi[0])
                    break
        if found:
            rr, j = found
            cc = rr["cases"][j]
            small = None if getattr(plugin, "NO_MINIMISE", False) else V.minimise(driver, None, cc, lambda x: bool(x["viol"]))
            if small:
                cc = small["cases"][small["viol"][0]]
            k += 1
            path = V.write_replay(pid, seed, k, cc, {
                "property": pid, "kind": "monitor violation found by the search after a correspondence break",
                "what": "; ".join(cc.viol[:3])})
            violations.append((path, cc.viol[0], False))
        else:
            small = None
            if not getattr(plugin, "NO_MINIMISE", False) or r.get("_extra"):
                try:
                    small = V.minimise(r.get("_driver", driver), r.get("_model", model), c, lambda x: bool(x["mismatch"]))
                except Exception:
                    small = None
            if small:
                j, d2, mobs2 = small["mismatch"][0]
                c, d, mobs = small["cases"][j], d2, mobs2
            k += 1
            c.lines.append("# model observations: " + " | ".join(mobs))
            path = V.write_replay(pid, seed, k, c, {
                "property": pid, "kind": "correspondence break, no failing input found",
                "no_longer_checks": "correspondence %s (model %s vs implementation) — theorems %s are no longer tied to the code"
                                    % (plugin.GO_CMD, getattr(plugin, "EXTRACT_V", "-"), ", ".join(thm_names) or "-"),
                "first_difference": "observation %d: implementation `%s`, model `%s`" % (d[0], d[1], d[2])})
            violations.append((path, "correspondence", True))
    if broken and not violations:
        k += 1
        c = V.Case("CASE 0 no case")
        path = V.write_replay(pid, seed, k, c, {
            "property": pid, "kind": "proof obligation / correspondence no longer checks",
            "no_longer_checks": "; ".join(broken), "detail": proof_failure or ""})
        # search implementation for a failing input anyway
        violations.append((path, broken[0], True))
        if results:
            pass

    # -- 7: evidence -------------------------------------------------------------------------------
    cov = {
        "obligations": len(obligations), "discharged": discharged,
        "checker_cmd": "make -C coq -j16 %s  (coqc 8.16.1, full .vo build)%s" % (
            " ".join(plugin.COQ_TARGETS), "; coqchk -silent -o" if tier == "thorough" and getattr(plugin, "COQCHK", True) else ""),
        "trusted_base": plugin.TRUSTED_BASE + [
            "Coq 8.16.1 kernel incl. vm_compute (no native_compute)",
            "Print Assumptions: %d of %d property theorems closed under the global context; axioms: %s"
            % (closed, len(thm_names), ", ".join(sorted(set(axioms))) or "none"),
            "extraction: ExtrOcamlBasic only, N/Z/positive/nat kept inductive; OCaml glue ocaml/common/conv.ml + ocaml/%s/run.ml" % getattr(plugin, "AREA", "-"),
            "correspondence harness harness/cmd/%s (Go, built from %s with -tags verif)" % (plugin.GO_CMD, V.REPO),
        ],
        "theorems": thm_names,
        "cone_files": cone,
        "evaluations": evaluations, "operations": ops,
        "distinct_nontrivial": len(nontrivial),
        "rule": plugin.RULE,
        "samples": samples,
        "distribution": dist,
        "runs": [{"tag": r["tag"], "cases": len(r["cases"]), "mismatches": len(r["mismatch"]),
                  "monitor_violations": len(r["viol"])} for r in results],
        "known_findings_seen": known_lines,
        "exhaustive": bool(getattr(plugin, "EXHAUSTIVE", False)),
    }
    if tier == "thorough" and ok and getattr(plugin, "COQCHK", True):
        mods = ["SSV." + t[:-3].replace("/", ".") for t in plugin.COQ_TARGETS]
        p = V.sh(["coqchk", "-silent", "-o", "-Q", V.COQ, "SSV"] + mods, cwd=V.COQ, timeout=3000, check=False)
        cov["coqchk"] = p.stdout[-1500:]
        if p.returncode != 0:
            raise V.CheckError("coqchk failed:\n" + p.stdout[-3000:])
    _evidence(plugin, tier, seed, t0, cov, len(violations), plugin.ASSUMPTIONS)

    for line in known_lines:
        print(line)
    if violations:
        for path, text, nofail in violations:
            print("VIOLATION property=%s replay=%s%s" % (pid, path, " no-failing-input-found" if nofail else ""))
        return 1
    say("%s: OK  (%d/%d obligations, %d cases, %d ops, %d nontrivial, %.1fs)" % (
        pid, discharged, len(obligations), evaluations, ops, len(nontrivial), time.time() - t0))
    return 0
